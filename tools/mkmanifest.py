#!/usr/bin/env python3
"""Regenerates /verif/MANIFEST.json from the table below (single place to edit)."""
import json
from pathlib import Path
V = Path(__file__).resolve().parent.parent
props = [json.loads(l) for l in open(V / "properties.jsonl")]

MC = "model_checking"
CHECKS = {
 "C01": dict(engine="tlc+h_spsc", cat=MC, ref="4 C01",
   text="TLC checks NoRace/Fifo/GrantFits/Contiguous exhaustively on SpscRA (release/acquire memory model, function-granularity "
        "interleaving with chosen load results) instantiated with constants extracted from the real queue; every transition's behaviour "
        "is replayed on the real BoundedSPSCQueueImpl running on a shim atomic with the same memory model (state compared step by step); "
        "seeded random walks (uint8/uint16 counters, many wraps) are validated by TLC against SpscContract",
   note="bounded configurations (cap 2-8, <=4-5 records) exhaustive in the model; RA fragment only (no fences/RMW); compiler reordering of "
        "payload copies only as far as the happens-before race detector sees it; trusted: shim atomic + race detector in harness/h_spsc.cpp",
   tech="TLA+ model checking under an RA memory model + behaviour replay + TLC trace validation"),
 "C02": dict(engine="tlc+h_spsc", cat=MC, ref="4 C02",
   text="TLC checks NoRace (incl. node construction)/Fifo across nodes/NoUseAfterRetire/AllocBound on UnboundedRA (view-carrying RA "
        "messages) with extracted constants; behaviours replayed on the real UnboundedSPSCQueue (retired nodes quarantined so any access is "
        "an event); seeded random walks with grow/shrink/oversize validated by TLC against StreamContract",
   note="<=3-4 records, <=3-4 nodes exhaustive in the model; huge pages / allocation failure not modelled",
   tech="TLA+ model checking under an RA memory model + behaviour replay + TLC trace validation"),
 "C09": dict(engine="tlc+h_spsc", cat=MC, ref="4 C09",
   text="TLC checks QuiescentGrant on SpscRA with the extracted batch/publish rule; counterexamples are replayed on the real queue and judged by "
        "the contract (a capacity-sized request on a drained, committed queue must be granted); random walks with quiescent probes on bounded "
        "and unbounded queues validated by TLC",
   note="queue level + Quill.tla NoStall/Resumes + end-to-end blocked-producer scenarios; 'idle backend' = consumer observed empty and "
        "called commit_read; 1 known finding (non-power-of-two maximum)",
   tech="TLA+ model checking + counterexample replay + TLC trace validation"),
 "C18": dict(engine="tlc+h_sys", cat=MC, ref="4 C18",
   text="TLC proves ring==contract window for every history up to the bound (Backtrace.tla), exports one history per transition, each is executed "
        "through the real API/queue/backend and the recorded execution is validated by TLC against the contract (TraceBacktrace.tla)",
   note="bounded histories (<=9/12 ops, cap<=3/4) exhaustive in the model; real code observed on exported + seeded random histories only; backend "
        "drained after every operation",
   tech="TLA+ model checking + TLC trace validation of real executions"),
}
SYSNOTE = ('Quill.tla (implementation-shaped, cut at the QUILL_VERIF yield points, constants extracted) is exhaustive for small configurations '
           'only (2-3 threads x 1-2 statements); the real code is observed on the exported schedules (sampled in quick) and on seeded random '
           'scenario families, serialised by the token scheduler between yield points (hooks, interposed clock/sleep); relaxed flags outside '
           'the queues behave sequentially consistent under it; unbounded queues are never full in the model; the protocol models bound through '
           'h_stop (StopRA, NewCtxRA, CounterRA, FilterRA: small bounds, 1-4 statements, 1-3 extra threads) script only the NAMED atomic objects - every '
           'other atomic of the library reads its newest value - and run the backend with sleep_duration = 0 (the wake-up mutex is not modelled)')
CHECKS.update({
 "C03": dict(engine="tlc+h_sys", cat=MC, ref="4 C03",
   text="Quill.tla checked exhaustively for small configurations (per-action checks of this property, I=>A on every exported behaviour, schedules replayed on the real code with state comparison); plus executions of the real frontend/backend under seeded schedules (several threads, sizes up to the queue capacity, thread exits, flushes, fine-grained backend steps) are validated by TLC against QuillContract (exactly once, per-thread order, completeness at quiescence); the registration of a new thread context under the C++ release/acquire model (flag set / load / clear, registry copy under the lock) is NewCtxRA.tla with the orders and the clear-before-copy order extracted from the code, every transition replayed on the REAL backend thread and REAL first log calls of new threads parked at every access of the flag (h_stop, fine-grained mode)",
   note=SYSNOTE,
   tech="TLA+ contract monitor + TLC trace validation of real executions under a deterministic scheduler"),
 "C05": dict(engine="tlc+h_sys", cat=MC, ref="4 C05",
   text="Quill.tla checked exhaustively for small configurations (per-action checks of this property, I=>A on every exported behaviour, schedules replayed on the real code with state comparison); plus executions under a virtual clock (stalls between clock read and enqueue, ticks, fine-grained backend steps) validated by TLC against QuillContract: write timestamps non-decreasing while no enqueue exceeded the grace period",
   note=SYSNOTE,
   tech="TLA+ contract monitor + TLC trace validation of real executions under a deterministic scheduler"),
 "C06": dict(engine="tlc+h_sys", cat=MC, ref="4 C06",
   text="Quill.tla checked exhaustively for small configurations (per-action checks of this property, I=>A on every exported behaviour, schedules replayed on the real code with state comparison); plus executions with flush_log calls (incl. first-time threads, dropping queues) validated by TLC against QuillContract: at return every earlier statement (own; all threads when ordering is on) is written and covered by a later sink flush; stuck flush = violation; the flush handshake under the C++ release/acquire model (flag store/load, sink writes ordered before the return) is StopRA.tla with extracted memory orders, every transition replayed on the REAL backend thread / flush_log() on a shim atomic (h_stop); the destination itself is FileSink.tla (write / flush / fsync interval / file deleted by the user / restart in a or w; constants extracted by probes), every exported behaviour replayed on the real quill::FileSink in a scratch directory (h_filesink) and judged by FileSinkContract.tla / TraceFileSink.tla",
   note=SYSNOTE,
   tech="TLA+ contract monitor + TLC trace validation of real executions under a deterministic scheduler"),
 "C08": dict(engine="tlc+h_sys", cat=MC, ref="4 C08",
   text="Quill.tla checked exhaustively for small configurations (per-action checks of this property, I=>A on every exported behaviour, schedules replayed on the real code with state comparison); plus executions on dropping queues validated by TLC against QuillContract: false return iff never written, accepted => delivered, reported discard counts add up at final quiescence (bounded), control requests never discarded; the dropped-message counter at the granularity of its atomic accesses is CounterRA.tla (increment, test, reset as a read-modify-write; happens-before through the queue) with the protocol extracted from the code, every transition replayed on the REAL backend thread and REAL log calls on a small bounded dropping queue (h_stop -DHSTOP_DROP, fine-grained mode)",
   note=SYSNOTE,
   tech="TLA+ contract monitor + TLC trace validation of real executions under a deterministic scheduler"),
 "C10": dict(engine="tlc+h_sys", cat=MC, ref="4 C10",
   text="Dispatch.tla (level check, per-sink dispatch loop, faults, flush) checked exhaustively for small configurations, every transition exported, judged by the contract (I=>A) and replayed on the real code with per-step event comparison; plus executions with scripted faults (format mismatch, throwing user formatters std/non-std, backtrace without init, sinks throwing on chosen write/flush calls) validated by TLC against QuillContract: every other statement delivered once in order, faults reported, backend alive, flush returns",
   note=SYSNOTE,
   tech="TLA+ implementation-shaped model (Dispatch.tla) checked by TLC, its behaviours replayed on the real code; TLA+ contract monitor + TLC trace validation of real executions under a deterministic scheduler"),
 "C16": dict(engine="tlc+h_sys", cat=MC, ref="4 C16",
   text="Dispatch.tla (level check, per-sink dispatch loop, lazily reloaded filters, override patterns) checked exhaustively for small configurations, every transition exported, judged by the contract (I=>A) and replayed on the real code with per-step event comparison; plus executions with random logger/sink levels, filters and changes, static/dynamic/macro statements validated by TLC against QuillContract: enqueued iff level passes at the call, arguments evaluated iff enqueued, per-sink level and filters, reported level; attaching a filter while the backend dispatches is FilterRA.tla (flag set inside add_filter's critical section, load, copy and clear inside the backend's; happens-before through lock and queue) with the protocol extracted from the code, every transition replayed on the REAL backend thread, Sink::add_filter and log calls (h_stop, fine-grained mode)",
   note=SYSNOTE,
   tech="TLA+ implementation-shaped model (Dispatch.tla) checked by TLC, its behaviours replayed on the real code; TLA+ contract monitor + TLC trace validation of real executions under a deterministic scheduler"),
 "C17": dict(engine="tlc+h_sys", cat=MC, ref="4 C17",
   text="RemoveRA.tla (removal flags under release/acquire, orders extracted, replayed on the real LoggerManager), SpinlockRA.tla (registry lock under release/acquire with the memory orders extracted from the code, every transition replayed on the real Spinlock through a shim atomic), Quill.tla (pipeline with logger removal) and Registry.tla (logger/sink registries, object lifetimes, async and blocking removal, create/get by name, failing flush) checked exhaustively for small configurations (I=>A on every exported behaviour, every transition replayed on the real code with per-step comparison); plus executions with create/get/remove/remove_blocking/re-create cycles and shared sinks validated by TLC against QuillContract: nothing logged before removal is lost, sinks destroyed only when unreferenced, blocking removal returns after completion, idempotent create/get; the remove_logger_blocking() handshake (request through the queue, remove_logger, the idle-branch clean-up with its acquire on _has_invalidated_loggers and emptiness re-check, destruction of the sink, the caller's flag) is part of StopRA.tla with extracted memory orders, every transition replayed on the REAL backend thread (h_stop)",
   note=SYSNOTE,
   tech="TLA+ contract monitor + TLC trace validation of real executions under a deterministic scheduler"),
 "C20": dict(engine="tlc+h_sys", cat=MC, ref="4 C20",
   text="ExitRA.tla (exit/reclaim protocol under release/acquire with the memory orders extracted from the code, every transition replayed on the real ThreadContext and queue through a shim atomic); Quill.tla checked exhaustively for small configurations (per-action checks of this property, I=>A on every exported behaviour, schedules replayed on the real code with state comparison); plus executions with thread start/log/exit/shrink schedules and N short-lived threads between idle periods (N around 256, 512..) validated by TLC against QuillContract: retained contexts = live threads that logged, shrink takes effect, delivery intact; the same exit/reclaim protocol on the REAL backend thread: StopRA.tla invariant NoReclaimLoss (a second thread logs and exits while the backend polls; the clean-up's acquire on _valid and its emptiness re-check), replayed through h_stop where the backend's own _cleanup_invalidated_thread_contexts decides",
   note=SYSNOTE,
   tech="TLA+ contract monitor + TLC trace validation of real executions under a deterministic scheduler"),
})
CHECKS.update({
 "C12": dict(engine="tlc+h_fmt_pattern", cat=MC, ref="4 C12",
   text="TLC checks that the transcription of PatternFormatter (fmt-string rewrite, slot table, format, the used part of fmt), of the backend's line "
        "splitting / runtime-metadata split and of MacroMetadata satisfies the contract (PatternContract.tla) for every pattern, message and source "
        "location within the bounds; the attribute tables of the transcription are extracted from the compiled code; every enumerated case plus seeded "
        "random larger patterns is executed on the real PatternFormatter / frontend+ManualBackendWorker and each recorded execution is judged by TLC "
        "against the same contract instantiated on real strings (TracePattern.tla)",
   note="exhaustive in the model only within <=3/4 items (quick) resp. <=4..6 items (thorough), messages <=5/7 symbols, 3 of 16 attributes with the full "
        "literal/spec alphabet and all 16 via rotating 6-subsets; deeper patterns by random walks; real code observed on exported + seeded cases only",
   tech="TLA+ model checking + behaviour replay + TLC validation of recorded executions (string-level contract)"),
 "C13": dict(engine="tlc+h_time", cat=MC, ref="4 C13",
   text="TLC proves on StrTime.tla (StringFromTime cache + TimestampFormatter split/fraction transcribed, recalculation grids and ctor behaviour "
        "extracted from the code by probing) that no call sequence over the boundary instants of tz-database scenarios ever shows a field differing "
        "from the reference of that instant (closed state graph, any length), and sweeps ctor/fraction statically; every exported sequence, a generated "
        "pattern family (fractional specifier at every position) and seeded random sequences 2001..2100 are executed on the real TimestampFormatter "
        "under TZ=<zone>; TLC validates each recorded execution against the contract (rendered = libc strftime + fraction; rejection rule)",
   note="model exhaustive for the generated boundary sets only (14/110 scenarios, 9/22 zones); real code observed on exported + generated + random "
        "executions (54k quick / 975k thorough); glibc C locale; text equality is libc's oracle carried in the trace; 3 known findings",
   tech="TLA+ model checking + behaviour replay + TLC trace validation of real executions"),
 "C19": dict(engine="tlc+h_named", cat=MC, ref="4 C19",
   text="TLC enumerates every template up to the bound (NamedArgs.tla: _contains_named_args, the brace scanner, the template cache and the join/split "
        "transcribed literally, scanner variant and separator extracted from the code) and checks the transcribed scanner against fmt's reference "
        "grammar, cache order independence and join/split round trip; every exported template goes through the real static scanner (prediction "
        "compared) and end to end through frontend/queue/backend into a recording sink and the real JsonFileSink, and each recorded execution is "
        "validated by TLC against the contract (TraceNamedArgs.tla)",
   note="templates <=7 (quick) / <=8 plus <=9 over 7 symbols (thorough) exhaustive in the model; real code run on exported templates <=6/7, composites, "
        "fixed and LOGJ_ macro cases with std::string/long long values, <=3 arguments; nested {a:{b}}, positional fields mixed with names are outside "
        "the contract; 2 known findings",
   tech="TLA+ model checking + behaviour replay + TLC trace validation of real executions"),
})
CHECKS.update({
 "C07": dict(engine="tlc+h_life", cat=MC, ref="4 C07",
   text="TLC proves the C07 invariants (promised statements on disk in order at stop/exit; signalled thread's statements then notice; right wait "
        "status; restart works) on Life.tla for all interleavings within small bounds, with -coverage and every seeded model defect (10 variants) caught; seeded TLC "
        "behaviours are run as forked children with the real backend thread/FileSink/signals and every recorded execution is validated by TLC "
        "against LifeContract (TraceLife.tla); NewCtxRA.tla behaviours ending with Backend::stop() (a lost registration loses statements at stop); Life.tla carries the timestamp-ordering grace period (statements too young to be read, Age) with a seeded model defect for an exit drain that stops early; the stop handshake under the C++ release/acquire model is StopRA.tla with the memory orders extracted "
        "from the code, every transition replayed on the REAL backend thread / Backend::stop() / log calls on a shim atomic (h_stop), judged by TraceStop.tla",
   note="exhaustive only for main+1 worker x3 statements x2 starts x six signals, main+2 workers x2 statements x{SEGV,INT}, and main+2 workers x3 "
        "statements with no signals; the full bound by seeded simulation only; real code sampled (240/3000 children); a rejection must repeat in 3 "
        "re-runs, anything else is drift; signals inside a log call and async-signal-safety are out of scope",
   tech="TLA+ model checking + TLC trace validation of real executions in forked children"),
 "C14": dict(engine="tlc+h_rot", cat=MC, ref="4 C14",
   text="TLC proves RotateContract on the RotatingSink transcription (Rotate.tla) for every history up to the bound; every exported history plus "
        "seeded random histories is replayed into the real RotatingFileSink and the recorded directory after each operation is validated by TLC "
        "against the contract (TraceRotate.tla)",
   note="model: limit 4 units, sizes {1,3,5}, backups {0,1,2,unlimited}, <=2 restarts, depth 7/6/5 quick and 9/7/7 thorough; count/deleted after an "
        "append restart tolerated in the model for Date/DateAndTime (known findings, judged on the real code); real code observed on exported "
        "(sampled in quick) + random histories; 4 known findings",
   tech="TLA+ model checking + behaviour replay + TLC trace validation of real executions"),
 "C15": dict(engine="tlc+h_rot", cat=MC, ref="4 C15",
   text="TLC proves the schedule clauses of RotateContract on Rotate.tla with a schedule on an abstract calendar; exported + random histories mapped "
        "to real timestamps (GMT, three DST zones, +05:30) are replayed into the real RotatingFileSink and validated by TLC against the contract "
        "whose calendar is python zoneinfo",
   note="daily exhaustive for the (repaired) next-HH:MM rule; hourly/minutely demand only the first boundary plus any consistent later reading; no "
        "restarts; HH:MM values inside a DST gap or repeated hour are not explored",
   tech="TLA+ model checking + behaviour replay + TLC trace validation of real executions"),
})
CHECKS.update({
 "C04": dict(engine="tlc+h_codec", cat=MC, ref="4 C04",
   text="TLC checks Reserved=Written=Consumed, CacheIndexInBounds, CacheReadsMatchPushes and Snapshot on Codec.tla (three codec passes per type tree, "
        "per-thread size cache + clear rule, header, dynamic level, mutation after call) exhaustively for bounded pools with widths measured on the "
        "code, exports the behaviours; each is compiled into C++ (gen_codec.py), executed through the real macros/queue/manual backend and the "
        "recorded execution validated by TLC against the contract (TraceCodec.tla)",
   note="TLC decides the size/cache/snapshot protocol (<=2 statements/thread, <=3 args, node depth <=2 quick / <=3 thorough over reduced alphabets) and "
        "generates the cases; text equality per concrete value is a differential oracle (call-site fmtquill::format) evaluated in the replay harness "
        "and judged in the trace spec, not a model-checking result; ~250/3300 sampled cases, seeded boundary values; 1 known finding (unordered order)",
   tech="TLA+ model checking + TLC-generated cases compiled to C++ + TLC trace validation of real executions"),
 "C11": dict(engine="tlc+h_codec", cat=MC, ref="4 C11",
   text="every recorded log call of the generated case set (interposed malloc family and mmap per thread, user formatters recording their thread) is "
        "validated by TLC against the HotPath automaton: no Alloc/Mmap on the caller inside a steady, fitting call of a covered class; deferred "
        "formatters only on the backend, direct ones only on the caller",
   note="trace validation against a thin automaton only: the states/transitions are those of the trace spec, there is no design-level exploration; "
        "allocation behaviour is observed, not modelled; observes only the generated cases (782 calls quick / 10,106 thorough); cases come from "
        "TLC's Codec.tla export; -O1 glibc",
   tech="TLC trace validation of allocator/formatter event traces"),
})
PENDING = "check under construction in this round (not yet claimed)"

man = {"version": 1, "setup_cmd": "cd /verif && ./setup.sh",
       "hooks": {"guard": "QUILL_VERIF",
                 "enable": "harnesses are compiled against /repo/include with -DQUILL_VERIF (header-only library; no separate build of /repo is needed)",
                 "baseline_off_cmd": "cmake --build /repo/_build -j 12 && ctest --test-dir /repo/_build -j8 --timeout 900",
                 "source_commits": ["f824c22", "99317fe", "199f97f", "cfc0d4f", "47f3861"], "add_only": True},
       "engines": [
           {"name": "tlc", "path": "/usr/local/bin/tlc", "serves_properties": sorted(CHECKS),
            "kind_free_text": "TLA+ explicit-state model checker: exhaustive check of spec/*.tla, behaviour export, trace validation"},
           {"name": "h_sys", "path": "/verif/harness/h_sys.cpp", "serves_properties": [p for p in sorted(CHECKS) if "h_sys" in CHECKS[p]["engine"]],
            "kind_free_text": "script-driven harness over the real quill frontend/backend under a deterministic token scheduler with virtual time; ndjson traces"},
           {"name": "h_fmt_pattern", "path": "/verif/harness/h_fmt_pattern.cpp", "serves_properties": ["C12"], "kind_free_text": "real PatternFormatter / frontend+manual backend driven by TLC-exported cases"},
           {"name": "h_time", "path": "/verif/harness/h_time.cpp", "serves_properties": ["C13"], "kind_free_text": "real TimestampFormatter under TZ=<zone> with interposed strftime"},
           {"name": "h_named", "path": "/verif/harness/h_named.cpp", "serves_properties": ["C19"], "kind_free_text": "real named-args scanner and end-to-end JSON sink runs"},
           {"name": "h_life", "path": "/verif/harness/h_life.cpp", "serves_properties": ["C07"], "kind_free_text": "forked children running the real backend thread, FileSink and signals"},
           {"name": "h_stop", "path": "/verif/harness/h_stop.cpp", "serves_properties": ["C03", "C06", "C07", "C08", "C16", "C17", "C20"], "kind_free_text": "the real backend thread (run loop, _poll, _exit), Backend::stop() and log calls of two real threads on the shim std::atomic (release/acquire model): the backend is parked at every load of its running flag, the script chooses what that load and the writer-position loads of the iteration read"},
           {"name": "h_filesink", "path": "/verif/harness/h_filesink.cpp", "serves_properties": ["C06"], "kind_free_text": "real quill::FileSink driven by scripts in a scratch directory (write, flush_sink, unlink, virtual steady clock, restart), fsync interposed and counted, file read back after every operation"},
           {"name": "h_lock", "path": "/verif/harness/h_lock.cpp", "serves_properties": ["C17"], "kind_free_text": "real detail::Spinlock on a shim std::atomic implementing the release/acquire model (coroutine threads, one step per atomic access, happens-before race detector)"},
           {"name": "h_remove", "path": "/verif/harness/h_remove.cpp", "serves_properties": ["C17"], "kind_free_text": "real LoggerManager / LoggerBase flags and bounded queue on the shim std::atomic (release/acquire model, script-chosen load values)"},
           {"name": "h_exit", "path": "/verif/harness/h_exit.cpp", "serves_properties": ["C20"], "kind_free_text": "real ThreadContext (_valid flag) and bounded queue on a shim std::atomic implementing the release/acquire model with script-chosen load values"},
           {"name": "h_rot", "path": "/verif/harness/h_rot.cpp", "serves_properties": ["C14", "C15"], "kind_free_text": "real RotatingFileSink driven by scripts in a scratch directory, directory listing after every op"},
           {"name": "h_codec", "path": "/verif/harness/codec/rt_codec.cpp", "serves_properties": ["C04", "C11"], "kind_free_text": "generated C++ cases through the real macros/queue/manual backend with interposed allocator"},
           {"name": "h_spsc", "path": "/verif/harness/h_spsc.cpp", "serves_properties": [p for p in sorted(CHECKS) if "h_spsc" in CHECKS[p]["engine"]],
            "kind_free_text": "real SPSC queues executed on a shim std::atomic implementing the spec's release/acquire model, with payload race detector"}],
       "checks": [], "not_applicable": [],
       "notes": "./check <id> --tier quick|thorough; exit 0 ok, 1 VIOLATION, 2 infrastructure error. See DESIGN.md."}
for p in props:
    i = p["id"]
    if i in CHECKS:
        c = CHECKS[i]
        man["checks"].append({"property_id": i, "quick_cmd": f"./check {i} --tier quick", "thorough_cmd": f"./check {i} --tier thorough",
                              "evidence_file": f"/verif/evidence/{i}.json", "replay_cmd_template": f"./check {i} --replay {{path}}",
                              "engine": c["engine"], "level_claimed": {"category": c["cat"], "text": c["text"], "design_ref": c["ref"]},
                              "level_note": c["note"], "technique": c["tech"]})
    else:
        man["not_applicable"].append({"property_id": i, "reason": PENDING})
json.dump(man, open(V / "MANIFEST.json", "w"), indent=1)
print("checks:", [c["property_id"] for c in man["checks"]])
