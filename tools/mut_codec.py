#!/usr/bin/env python3
"""Binding self-test for C04 / C11: applies seeded changes to a scratch COPY of /repo/include (never /repo), runs the
check against it (VERIF_REPO) and prints what it reported; the copy is deleted afterwards.
usage: mut_codec.py [name ...]      (no name = all)"""
import os, shutil, subprocess, sys
from pathlib import Path
sys.path.insert(0, str(Path(__file__).resolve().parent))
import vlib

CODEC = "include/quill/core/Codec.h"
C11_REPAIR = [  # repair of the map codec (fix commit 9f9f378 in /repo); applied only if the copy does not have it yet
    (f, "        total_size += Codec<std::pair<Key, T>>::compute_encoded_size(conditional_arg_size_cache, elem);",
     "        total_size += Codec<Key>::compute_encoded_size(conditional_arg_size_cache, elem.first);\n"
     "        total_size += Codec<T>::compute_encoded_size(conditional_arg_size_cache, elem.second);")
    for f in ("include/quill/std/Map.h", "include/quill/std/UnorderedMap.h")] + [
    (f, "      Codec<std::pair<Key, T>>::encode(buffer, conditional_arg_size_cache,\n"
        "                                       conditional_arg_size_cache_index, elem);",
     "      Codec<Key>::encode(buffer, conditional_arg_size_cache, conditional_arg_size_cache_index, elem.first);\n"
     "      Codec<T>::encode(buffer, conditional_arg_size_cache, conditional_arg_size_cache_index, elem.second);")
    for f in ("include/quill/std/Map.h", "include/quill/std/UnorderedMap.h")]

MUTS = {
    # ---- C04, breaking
    "c04_cache_not_cleared_for_cstr": ("C04", "break", [
        (CODEC, "std::is_same<remove_cvref_t<Args>, void const*>, is_std_string<remove_cvref_t<Args>>,",
         "std::is_same<remove_cvref_t<Args>, void const*>, std::is_same<remove_cvref_t<Args>, char const*>, is_std_string<remove_cvref_t<Args>>,")]),
    "c04_string_decoded_with_strlen": ("C04", "break", [
        (CODEC, "      auto const arg = std::string_view{reinterpret_cast<char const*>(buffer), len};\n      buffer += len;",
         "      auto const arg = std::string_view{reinterpret_cast<char const*>(buffer), detail::safe_strnlen(reinterpret_cast<char const*>(buffer), len)};\n      buffer += len;")]),
    "c04_char_array_off_by_one": ("C04", "break", [
        (CODEC, "      size_t len = detail::safe_strnlen(arg, N) + 1u;", "      size_t len = detail::safe_strnlen(arg, N - 1) + 1u;")]),
    "c04_optional_flag_not_counted": ("C04", "break", [
        ("include/quill/std/Optional.h", "    size_t total_size{sizeof(bool)};\n\n    if (arg.has_value())", "    size_t total_size{arg.has_value() ? sizeof(bool) : 0};\n\n    if (arg.has_value())")]),
    "c04_unordered_set_drops_an_element": ("C04", "break", [   # must stay a VIOLATION although unordered order is a known finding
        ("include/quill/std/UnorderedSet.h", "        arg.emplace(Codec<Key>::decode_arg(buffer));\n      }\n",
         "        arg.emplace(Codec<Key>::decode_arg(buffer));\n      }\n      if (arg.size() > 1) { arg.erase(arg.begin()); }\n")]),
    # ---- round-2 seeded changes (independent agent): must all be reported
    "c04_char_not_string_related": ("C04", "break", [
        ("include/quill/core/DynamicFormatArgStore.h",
         "                  (mapped_type == fmtquill::detail::type::custom_type) ||\n                  (mapped_type == fmtquill::detail::type::char_type))\n    {\n      _has_string_related_type = true;",
         "                  (mapped_type == fmtquill::detail::type::custom_type))\n    {\n      _has_string_related_type = true;")]),
    "c04_tuple_cache_index_by_value": ("C04", "break", [
        ("include/quill/std/Tuple.h", "      [&conditional_arg_size_cache, &conditional_arg_size_cache_index, &buffer](auto const&... elems)\n      {\n        ((Codec<std::decay_t<decltype(elems)>>::encode(",
         "      [&conditional_arg_size_cache, conditional_arg_size_cache_index, &buffer](auto const&... elems) mutable\n      {\n        ((Codec<std::decay_t<decltype(elems)>>::encode(")]),
    "c11_pair_copied": ("C11", "break", [
        ("include/quill/std/Pair.h", "    size_t total_size = Codec<T1>::compute_encoded_size(conditional_arg_size_cache, arg.first);\n    total_size += Codec<T2>::compute_encoded_size(conditional_arg_size_cache, arg.second);",
         "    auto const [first, second] = arg;\n    size_t total_size = Codec<T1>::compute_encoded_size(conditional_arg_size_cache, first);\n    total_size += Codec<T2>::compute_encoded_size(conditional_arg_size_cache, second);"),
        ("include/quill/std/Pair.h", "    Codec<T1>::encode(buffer, conditional_arg_size_cache, conditional_arg_size_cache_index, arg.first);\n    Codec<T2>::encode(buffer, conditional_arg_size_cache, conditional_arg_size_cache_index, arg.second);",
         "    auto const [first, second] = arg;\n    Codec<T1>::encode(buffer, conditional_arg_size_cache, conditional_arg_size_cache_index, first);\n    Codec<T2>::encode(buffer, conditional_arg_size_cache, conditional_arg_size_cache_index, second);")]),
    "c11_preallocate_default_options": ("C11", "break", [
        ("include/quill/Frontend.h", "    auto const volatile spsc_queue_capacity = detail::get_local_thread_context<TFrontendOptions>()\n                                                ->template get_spsc_queue<TFrontendOptions::queue_type>()",
         "    auto const volatile spsc_queue_capacity = detail::get_local_thread_context<FrontendOptions>()\n                                                ->template get_spsc_queue<FrontendOptions::queue_type>()")]),
    # ---- C04 / C11, benign
    "benign_inline_capacity_8": ("C04+C11", "benign", [
        ("include/quill/core/InlinedVector.h", "using SizeCacheVector = InlinedVector<uint32_t, 12>;", "using SizeCacheVector = InlinedVector<uint32_t, 8>;")]),
    "benign_cstr_copy_with_terminator": ("C04+C11", "benign", [
        (CODEC, "      std::memcpy(buffer, arg, len - 1);\n      buffer[len - 1] = std::byte{'\\0'};",
         "      if (arg) { std::memcpy(buffer, arg, len - 1); }\n      std::memset(buffer + (len - 1), 0, 1);")]),
    # ---- C11, breaking (on top of the proposed map repair)
    "c11_temporary_string_for_string_view": ("C11", "break", C11_REPAIR + [
        (CODEC, "      auto const len = static_cast<uint32_t>(arg.length());\n      std::memcpy(buffer, &len, sizeof(len));\n      buffer += sizeof(len);\n      std::memcpy(buffer, arg.data(), len);",
         "      auto const len = static_cast<uint32_t>(arg.length());\n      std::memcpy(buffer, &len, sizeof(len));\n      buffer += sizeof(len);\n      std::string const tmp{arg.data(), arg.length()};\n      std::memcpy(buffer, tmp.data(), len);")]),
    "c11_eager_format_of_deferred_type": ("C11", "break", C11_REPAIR + [
        ("include/quill/DeferredFormatCodec.h", "  static size_t compute_encoded_size(detail::SizeCacheVector&, T const&) noexcept\n  {",
         "  static size_t compute_encoded_size(detail::SizeCacheVector&, T const& eager) noexcept\n  {\n    (void)fmtquill::formatted_size(\"{}\", eager);")]),
    "c11_new_in_reserve_path": ("C11", "break", C11_REPAIR + [
        ("include/quill/Logger.h", "    std::byte* write_buffer = _prepare_write_buffer(total_size);\n\n    if constexpr ((frontend_options_t::queue_type == QueueType::BoundedDropping)",
         "    std::byte* write_buffer = _prepare_write_buffer(total_size);\n    { std::byte* volatile staging = new std::byte[total_size]; delete[] staging; }\n\n    if constexpr ((frontend_options_t::queue_type == QueueType::BoundedDropping)")]),
    "c11_map_codec_copies_elements_again": ("C11", "break", [   # reverts fix commit 9f9f378 (the deviation this check found)
        (f, "        total_size += Codec<Key>::compute_encoded_size(conditional_arg_size_cache, elem.first);\n"
            "        total_size += Codec<T>::compute_encoded_size(conditional_arg_size_cache, elem.second);",
         "        total_size += Codec<std::pair<Key, T>>::compute_encoded_size(conditional_arg_size_cache, elem);")
        for f in ("include/quill/std/Map.h", "include/quill/std/UnorderedMap.h")]),
}


def run_one(name):
    props, kind, edits = MUTS[name]
    d = vlib.scratch("mut")
    try:
        shutil.copytree(vlib.REPO / "include", d / "include")
        for f, old, new in edits:
            p = d / f
            s = p.read_text()
            if s.count(old) != 1:
                if (f, old, new) in C11_REPAIR and "elem.first" in s:
                    continue            # already repaired upstream
                print(f"{name}: pattern not found exactly once in {f} ({s.count(old)})")
                return
            p.write_text(s.replace(old, new))
        for prop in props.split("+"):
            env = dict(os.environ, VERIF_REPO=str(d), VERIF_CODEC_REUSE_CASES="1")
            r = subprocess.run([str(vlib.VERIF / "check"), prop, "--tier", "quick"], capture_output=True, text=True, env=env)
            verdict = [l for l in (r.stdout + r.stderr).splitlines() if l.startswith(("VIOLATION", "OK ", "KNOWN", "INFRA", "  ")) and "[build]" not in l]
            if r.returncode == 2:
                verdict = (r.stdout + r.stderr).splitlines()[-6:]
            print(f"== {name} [{kind}] {prop}: exit {r.returncode}")
            for l in verdict[:8]:
                print("   " + l[:400])
            ev = vlib.EVID / f"{prop}.json"
            if ev.exists():
                import json
                j = json.loads(ev.read_text())
                if j["coverage"].get("drift"):
                    print("   drift: " + str(j["coverage"]["drift"][:2])[:400])
    finally:
        vlib.rm(d)


if __name__ == "__main__":
    for n in (sys.argv[1:] or list(MUTS)):
        run_one(n)
