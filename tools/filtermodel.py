"""Attaching a filter to a sink while the backend dispatches (part of C16): spec/FilterRA.tla model-checked with the protocol
EXTRACTED from the real code (harness/h_stop, fine-grained mode: the REAL backend thread parked at every access of
Sink::_new_filter, REAL Sink::add_filter and log calls): the memory orders and whether the flag is cleared inside the critical
section that copies the filters. Every transition is exported and replayed on the real code, every execution judged by
spec/TraceFilter.tla."""
import json, random
from concurrent.futures import ThreadPoolExecutor
import vlib, sysh, stopmodel

HEAD = "init\npolicy 1:R:load 1:NF:load 1:NF:store 0:NF:store\n"


def extract(exe):
    evs = stopmodel.run(exe, HEAD + "X logc 1\nA 1\nX addfilter 1\nS 0 0\nnote xaddret 1\nS 1 0\nS 1 0\nA 1\nX logc 1\nA 1\nS 1 0\nA 1\nend\n")
    k = {}
    for e in evs:
        if e["e"] == "acc" and e["obj"] == "NF":
            if e["t"] == 0:
                k.setdefault("MoSet", e["mo"])
            elif e["op"] == "load":
                k.setdefault("MoLoad", e["mo"])
            else:
                k.setdefault("MoClear", e["mo"])
    at_store = [e for e in evs if e["e"] == "sstep" and e.get("t") == 1 and e.get("at") == "NF:store"]
    if len(k) != 3 or not at_store:
        raise vlib.Infra(f"could not observe the accesses of the sink's new-filter flag: {k}")
    k["ClearInsideCS"] = bool(at_store[0]["flock"])
    return k


def cfg_text(k, classes, maxlogs, export):
    return ("SPECIFICATION Spec\nCONSTANTS Classes = {%s}\n MaxLogs = %d\n MoSet = \"%s\"\n MoLoad = \"%s\"\n MoClear = \"%s\"\n ClearInsideCS = %s\n"
            " Export = %s\nINVARIANTS FilterSeesLater TypeOK\nVIEW StateView\n%sCHECK_DEADLOCK FALSE\n"
            % (",".join(str(c) for c in classes), maxlogs, k["MoSet"], k["MoLoad"], k["MoClear"], "TRUE" if k["ClearInsideCS"] else "FALSE",
               "TRUE" if export else "FALSE", "ACTION_CONSTRAINT ExportA\n" if export else ""))


def script_of(beh):
    L = [HEAD.rstrip("\n")]
    adding = 0
    for h in beh:
        if h["a"] == "addstart":
            adding = h["arg"][0]
            L.append(f"X addfilter {adding}")
        elif h["a"] == "addend":
            L += ["S 0 0", f"note xaddret {adding}"]
        elif h["a"] == "log":
            L += [f"X logc {h['arg'][0]}", "A 1"]
        elif h["a"] == "load":
            L += [f"S 1 {h['arg'][0]}", "A 1"]
        elif h["a"] == "clear":
            L += ["S 1 0", "A 1"]
    return "\n".join(L) + "\nend\n"


def compare(k, beh, evs):
    if any(e["e"] == "crash" for e in evs):
        return "harness crashed or hung"
    if evs and evs[-1].get("badchoice"):
        return "a load value chosen by the model is not allowed by the harness' memory model"
    # the last state report of each model step
    groups, cur = [], None
    for e in evs:
        if e["e"] in ("xadd", "xlogc", "sstep"):
            cur = [e]
            groups.append(cur)
        elif e["e"] == "adv" and cur is not None:
            cur.append(e)
    if len(groups) != len(beh):
        return f"harness ran {len(groups)} of {len(beh)} steps"
    loads = [e for e in evs if e["e"] == "acc" and e["obj"] == "NF" and e["t"] == 1 and e["op"] == "load"]
    li = 0
    for n, (h, g) in enumerate(zip(beh, groups)):
        st = g[-1]
        if g[0].get("skipped"):
            return f"step {n + 1} ({h['a']}): the thread was not parked"
        if sorted(st.get("written", [])) != sorted(h["written"]):
            return f"step {n + 1} ({h['a']}): written {sorted(st.get('written', []))}, model {sorted(h['written'])}"
        if bool(st.get("flock")) != bool(h["flock"]):
            return f"step {n + 1} ({h['a']}): filters lock held = {st.get('flock')}, model {h['flock']}"
        if h["a"] == "load":
            if li >= len(loads) or loads[li]["idx"] != h["arg"][0]:
                return f"step {n + 1}: the flag load read message {loads[li]['idx'] if li < len(loads) else None}, model {h['arg'][0]}"
            li += 1
    return None


def validate(ck, execs, label):
    lines, owners = [], []
    for i, (key, sc, evs) in enumerate(execs):
        ev2 = [e for e in evs if e["e"] != "acc"]
        lines += ev2
        owners += [i] * len(ev2)
    rej = []
    while lines:
        r = sysh.validate_trace("TraceFilter", "TraceFilter.cfg", lines)
        if r.error:
            raise vlib.Infra(r.error)
        ck.add_tlc(r, f"TraceFilter {label}")
        if r.violated is None:
            if r.distinct != len(lines) + 1:
                raise vlib.Infra("filter trace not fully consumed")
            break
        l = r.trace[-1]["l"] - 1
        own = owners[l - 1]
        rej.append((execs[own][0], execs[own][1], r.trace[-1]["m"]["why"], lines[l - 1]))
        end = l
        while end < len(lines) and owners[end] == own:
            end += 1
        lines, owners = lines[end:], owners[end:]
        if len(rej) > 20:
            break
    return rej


def run_for(ck):
    quick = ck.tier == "quick"
    exe = stopmodel.build()
    try:
        k = extract(exe)
    except vlib.Infra as ex:
        ck.drifted(f"new-filter protocol: constant extraction failed: {ex}")
        return
    ck.extra["new_filter_protocol_from_code"] = k
    for classes, maxlogs in ([([1, 2], 2)] if quick else [([1, 2], 2), ([1, 2], 3)]):
        label = f"filter-{len(classes)}-{maxlogs}"
        cfg = vlib.write_cfg(vlib.BUILD / "cfg" / f"FilterRA_{label}.cfg", cfg_text(k, classes, maxlogs, True))
        r = vlib.tlc("FilterRA", cfg, timeout=600, coverage=quick)
        if r.error:
            raise vlib.Infra(r.error)
        ck.add_tlc(r, f"FilterRA {label}")
        if r.violated:
            beh = r.trace[-1]["hist"]
            sc = script_of(beh)
            ck.extra.setdefault("model_counterexamples", []).append({"config": label, "invariant": r.violated})
            rej = validate(ck, [("cex", sc, stopmodel.run(exe, sc))], label)
            if rej and validate(ck, [("cex", sc, stopmodel.run(exe, sc))], label):
                key, sc, why, ev = rej[0]
                ck.violation("filter:" + "-".join(why.split())[:70],
                             f"attaching a filter ({k}): {why}; schedule {[(h['t'], h['a'], h['arg']) for h in beh]}; rejected event {json.dumps(ev)[:300]}",
                             {"script": sc, "harness": "h_stop", "protocol": k, "why": why})
            else:
                ck.drifted(f"FilterRA violates {r.violated} with the code's protocol {k} but the real code passes on that schedule")
            continue
        if quick:
            for a in ("XAddEnd", "BClear"):
                if not vlib.enabled(r, a):
                    raise vlib.Infra(f"vacuity: {a} never enabled in FilterRA {label}")
        behs = vlib.behaviours(r)
        if not behs:
            raise vlib.Infra("FilterRA exported no behaviours")
        cap = 160 if quick else 2500
        if len(behs) > cap:
            rnd = random.Random(ck.seed)
            good = [b for b in behs if any(h["a"] == "clear" for h in b) and any(h["a"] == "log" for h in b)]
            behs = rnd.sample(good, min(len(good), cap))
        with ThreadPoolExecutor(max_workers=max(2, vlib.NCPU // 2)) as ex:
            res = list(ex.map(lambda b: stopmodel.run(exe, script_of(b)), behs))
        execs, ndrift = [], 0
        for i, (b, evs) in enumerate(zip(behs, res)):
            d = compare(k, b, evs)
            if d:
                ndrift += 1
                if ndrift <= 3:
                    ck.drifted(f"FilterRA {label}: {d}")
            execs.append((f"{label}-{i}", script_of(b), evs))
            ck.case(("filter", label, i), nontrivial=any(h["a"] == "clear" for h in b))
        rej = validate(ck, execs, label)
        ck.traces_validated += len(execs) - len(rej)
        for key, sc, why, ev in rej[:3]:
            if validate(ck, [(key, sc, stopmodel.run(exe, sc))], label):
                ck.violation("filter:" + "-".join(why.split())[:70], f"{key}: {why}; rejected event {json.dumps(ev)[:300]}",
                             {"script": sc, "harness": "h_stop", "protocol": k, "why": why})
        ck.extra["filter_behaviours_replayed"] = ck.extra.get("filter_behaviours_replayed", 0) + len(behs)
        ck.extra["filter_behaviours_drifting"] = ck.extra.get("filter_behaviours_drifting", 0) + ndrift


def replay(path):
    stopmodel.replay(path)
