"""h_sys events -> lines for spec/TraceQuill.tla (pure normalisation, no judgement)."""


def _ints(s):
    return [int(x) for x in str(s).split(",") if x != ""]


def lines_of(evs, grace):
    out = []
    cfg = next((e for e in evs if e.get("e") == "Config"), None)
    qt = cfg["qtype"] if cfg else "UnboundedBlocking"
    out.append({"k": "cfg", "grace": grace, "dropping": qt.endswith("Dropping"), "bounded": qt.startswith("Bounded")})
    sched = {}
    files = set()
    for e in evs:
        k = e.get("e")
        if k == "SinkCreated":
            if e.get("same", True) is False:
                out.append({"k": "sinkget", "s": e["s"], "found": True, "same": False})
                continue
            out.append({"k": "sink", "s": e["s"], "lvl": e.get("lvl", 0), "tw": _ints(e.get("tw", "")), "tf": _ints(e.get("tf", ""))})
        elif k == "FileSinkCreated":
            files.add(e["s"])
        elif k == "FileRead":
            out.append({"k": "fileread", "t": e["t"], "s": e["s"], "ids": e["ids"]})
        elif k == "LoggerCreated":
            allsinks = [x for x in e["sinks"].split(",") if x]
            out.append({"k": "logger", "lg": e["lg"], "sinks": [x for x in allsinks if x not in files], "fsinks": [x for x in allsinks if x in files],
                        "lvl": e.get("lvl", 4),
                        "sys": e.get("clock", "system") == "system", "fresh": bool(e["fresh"])})
        elif k == "CreateRet":
            out.append({"k": "created", "lg": e["lg"], "ptr": e["ptr"], "sinks": [x for x in e.get("sinks", "").split(",") if x]})
        elif k == "GetCall":
            out.append({"k": "getcall", "t": e["t"], "lg": e["lg"]})
        elif k == "GetRet":
            out.append({"k": "got", "t": e["t"], "lg": e["lg"], "ptr": e["ptr"]})
        elif k == "LogCall":
            kind = "btnoinit" if (e["kind"] == "macro" and e["lvl"] == 9) else e["kind"]
            out.append({"k": "logcall", "t": e["t"], "id": e["id"], "lg": e["lg"], "lvl": e["lvl"], "kind": kind})
        elif k == "Ts":
            out.append({"k": "ts", "t": e["t"], "now": e["now"]})
        elif k == "Commit":
            out.append({"k": "commit", "t": e["t"], "now": e["now"]})
        elif k == "LogRet":
            out.append({"k": "logret", "t": e["t"], "id": e["id"], "ret": 3 if e.get("threw") else e["ret"], "argevals": e["argevals"]})
        elif k == "Write":
            if e["id"] < 0:
                continue          # not a harness statement (error text written in place of a failing statement)
            out.append({"k": "write", "s": e["s"], "id": e["id"], "lvl": e["lvl"], "ts": e["ts"], "thr": bool(e.get("thr")),
                        "intact": bool(e.get("intact", True)), "fmt": bool(e.get("fmt", True)), "nnamed": e.get("nnamed", 0)})
        elif k == "SinkFlush":
            out.append({"k": "sflush", "s": e["s"], "thr": bool(e.get("thr"))})
        elif k == "FlushCall":
            out.append({"k": "ctxuse", "t": e["t"]})
            out.append({"k": "flushcall", "t": e["t"]})
        elif k == "FlushRet":
            out.append({"k": "flushret", "t": e["t"]})
        elif k == "Notify":
            out.append({"k": "notify", "cls": e["cls"], "n": e["n"]})
        elif k == "SetLoggerLevel":
            out.append({"k": "setlevel", "lg": e["lg"], "lvl": e["lvl"]})
        elif k == "SetSinkLevel":
            out.append({"k": "sinklevel", "s": e["s"], "lvl": e["lvl"]})
        elif k == "AddFilter":
            if not e.get("threw"):
                out.append({"k": "addfilter", "s": e["s"], "deny": _ints(e.get("deny", "")), "all": bool(e.get("all"))})
        elif k == "ThreadExit":
            out.append({"k": "threadexit", "t": e["t"]})
        elif k in ("InitBacktrace", "FlushBacktrace", "Preallocate", "Capacity"):
            out.append({"k": "ctxuse", "t": e["t"]})
            if k == "FlushBacktrace":
                out.append({"k": "flushbt", "t": e["t"], "lg": e["lg"]})
        elif k == "Shrink":
            out.append({"k": "ctxuse", "t": e["t"]})
            out.append({"k": "shrink", "req": e["req"], "before": e["before"], "after": e["after"]})
        elif k == "CtxCount":
            out.append({"k": "ctx", "n": e["n"]})
        elif k == "RemoveLogger":
            out.append({"k": "remove", "lg": e["lg"]})
        elif k == "RemoveBlockingCall":
            out.append({"k": "ctxuse", "t": e["t"]})
            out.append({"k": "remove", "lg": e["lg"]})
        elif k == "RemoveBlockingRet":
            out.append({"k": "removebret", "lg": e["lg"], "n": e["nloggers"]})
        elif k == "SinkGet":
            out.append({"k": "sinkget", "s": e["s"], "found": bool(e["found"]), "same": bool(e["same"])})
        elif k == "SinkRefDropped":
            out.append({"k": "dropsink", "s": e["s"]})
        elif k == "SinkDestroyed":
            out.append({"k": "sinkdestroyed", "s": e["s"]})
        elif k == "LoggerCount":
            out.append({"k": "loggercount", "n": e["n"]})
        elif k == "Sched":
            sched[e["t"]] = e["st"]
        elif k == "Mark":
            w = e["what"]
            if w == "q":
                out.append({"k": "quiescent", "final": False})
            elif w == "qf":
                out.append({"k": "quiescent", "final": True})
            elif w.startswith("expectidle:"):
                _, t, kind = w.split(":")
                if sched.get(t) == "parked":
                    out.append({"k": kind})
        elif k in ("Abort", "Crash", "DrainStuck", "Garbled"):
            out.append({"k": "backenddead"})
    return out
