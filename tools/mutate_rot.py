#!/usr/bin/env python3
"""Binding self-test for C14 / C15: apply each seeded change to a scratch COPY of /repo/include, run the check against
the copy (VERIF_REPO), report what the check says, delete the copy.  Usage: tools/mutate_rot.py [name ...]
breaking changes must be reported as VIOLATION with a signature that is not a known finding; benign ones must not."""
import os, re, shutil, subprocess, sys, json
from pathlib import Path
sys.path.insert(0, str(Path(__file__).resolve().parent))
import vlib

F = "include/quill/sinks/RotatingSink.h"


def sub(s, old, new, count=1):
    assert old in s, old
    return s.replace(old, new, count)


def rotate_after_write(s):
    s = sub(s, """    if (!time_rotation && _config.rotation_max_file_size() != 0)
    {
      // Check if we need to rotate based on size
      _size_rotation(log_statement.size(), log_timestamp);
    }
""", "")
    return sub(s, """    _file_size += log_statement.size();
  }
""", """    _file_size += log_statement.size();

    if (!time_rotation && _config.rotation_max_file_size() != 0)
    {
      _size_rotation(0, log_timestamp);
    }
  }
""")


def size_ge(s):
    return sub(s, "if (_file_size + log_msg_size > _config.rotation_max_file_size())", "if (_file_size + log_msg_size >= _config.rotation_max_file_size())")


def rename_wrong_direction(s):
    return sub(s, "for (auto it = _created_files.rbegin(); it != _created_files.rend(); ++it)", "for (auto it = _created_files.begin(); it != _created_files.end(); ++it)")


def time_gt(s):
    return sub(s, "if (record_timestamp_ns >= _next_rotation_time)", "if (record_timestamp_ns > _next_rotation_time)")


def delete_when_no_overwrite(s):
    return sub(s, "if ((_created_files.size() > _config.max_backup_files()) && !_config.overwrite_rolled_files())", "if (false)")


def recover_unsorted(s):
    return sub(s, "[](FileInfo const& a, FileInfo const& b) { return a.index < b.index; }", "[](FileInfo const& a, FileInfo const& b) { return a.index > b.index; }")


def open_ts_not_updated(s):
    return sub(s, "    _open_file_timestamp = record_timestamp_ns;\n    _file_size = 0;", "    _file_size = 0;")


def benign_delete_first(s):
    s = sub(s, """    // We need to rotate the files and rename them with an index
    for (auto it""", """    // remove the oldest file first, then shift the others
    if (_created_files.size() > _config.max_backup_files())
    {
      fs::path const removed_file = _get_filename(
        _created_files.back().base_filename, _created_files.back().index, _created_files.back().date_time);
      _remove_file(removed_file);
      _created_files.pop_back();
    }

    // We need to rotate the files and rename them with an index
    for (auto it""")
    return sub(s, """    if (_created_files.size() > _config.max_backup_files())
    {
      // remove_file that file from the system and also pop it from the queue
      fs::path const removed_file = _get_filename(
        _created_files.back().base_filename, _created_files.back().index, _created_files.back().date_time);
      _remove_file(removed_file);
      _created_files.pop_back();
    }
""", "")


def benign_track_size_from_disk(s):
    # different but correct bookkeeping: ask the file system instead of adding up
    return sub(s, "    _file_size += log_statement.size();\n", "    base_type::flush_sink();\n    _file_size = _get_file_size(this->_filename);\n")


def no_recovery_without_active_file(s):
    # append mode: skip the recovery of the previous run's rotated files when the active file does not exist
    return sub(s, """    else if (open_mode == "a")
    {
      // we need to recover the index from the existing files
""", """    else if (open_mode == "a")
    {
      if (!fs::exists(filename))
      {
        return;
      }

      // we need to recover the index from the existing files
""")


MUTS = {
    "no_recovery_without_active_file": ("C14", "breaking", no_recovery_without_active_file),
    "rotate_after_write": ("C14", "breaking", rotate_after_write),
    "rename_wrong_direction": ("C14", "breaking", rename_wrong_direction),
    "delete_when_no_overwrite": ("C14", "breaking", delete_when_no_overwrite),
    "recover_sorted_descending": ("C14", "breaking", recover_unsorted),
    "time_gt_instead_of_ge": ("C15", "breaking", time_gt),
    "open_timestamp_not_updated": ("C15", "breaking", open_ts_not_updated),
    "size_ge_instead_of_gt": ("C14", "tolerated (exact fill may rotate): drift only", size_ge),
    "benign_delete_oldest_first": ("C14", "benign", benign_delete_first),
    "benign_size_from_disk": ("C14", "benign", benign_track_size_from_disk),
    "benign_delete_oldest_first_c15": ("C15", "benign", benign_delete_first),
}


def main():
    names = sys.argv[1:] or list(MUTS)
    for n in names:
        prop, kind, fn = MUTS[n]
        d = vlib.scratch("mut_" + n + "_")
        try:
            shutil.copytree("/repo/include", d / "include")
            p = d / F
            p.write_text(fn(p.read_text()))
            diff = subprocess.run(["diff", "-u", "/repo/" + F, str(p)], capture_output=True, text=True).stdout
            (vlib.VERIF / "mutations" / f"{prop}_{n}.diff").write_text(re.sub(r"(?m)^(---|\+\+\+) \S+.*$", lambda m: m.group(1) + " " + F, diff))
            e = dict(os.environ, VERIF_REPO=str(d))
            r = subprocess.run([str(vlib.VERIF / "check"), prop, "--tier", "quick"], capture_output=True, text=True, env=e)
            ev = json.loads((vlib.EVID / f"{prop}.json").read_text())["coverage"]
            sigs = [l.strip().split(":", 1)[0] if False else l.strip() for l in r.stderr.splitlines() if l.startswith("  ")]
            print(f"== {n} [{prop}, {kind}] exit={r.returncode} model_faithful={ev.get('model_faithful')} "
                  f"mismatching_predictions={ev.get('predictions_mismatching')}")
            for l in r.stdout.splitlines():
                if l.startswith(("VIOLATION", "KNOWN", "OK")):
                    print("   ", l[:200])
            for l in sigs:
                print("      ", l[:330])
            if r.returncode == 2:
                print(r.stderr[-1500:])
        finally:
            vlib.rm(d)


if __name__ == "__main__":
    main()
