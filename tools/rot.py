"""Shared machinery of the C14 / C15 checks (RotatingFileSink): history representation, scripts for harness/h_rot.cpp,
reference calendar (python zoneinfo), normalisation of the recorded directory observations into TraceRotate lines,
TLC trace validation, confirmation + signatures of rejections, mapping of TLC-exported abstract behaviours to real
timestamps, comparison with the model's predicted directory (drift).  python3 stdlib only.

A history (item) is a dict:
  k    : int                       unique number
  cfg  : limit (bytes, 0 off), maxb (-1 unlimited), over 0/1, scheme 'I'|'D'|'T', freq 'N'|'D'|'H'|'M', interval,
         daily 'HH:MM', zone 'G'|'L', tz (zone name used when zone == 'L'), clean 0/1
  pre  : [unrelated file names]
  ops  : [('C', mode, t) | ('R', mode, t[, rm]) | ('W', id, size, t)]      t = epoch seconds, mode 'a'|'w',
         rm = 1: the active file (logfile.log) disappears while no sink is open (between destroy and construct)
  pred : optional, per op the model-predicted {filename: [ids]}       (TLC-exported behaviours only)
"""
import json, re
from concurrent.futures import ThreadPoolExecutor
from datetime import datetime, timedelta, time as dtime, timezone
from zoneinfo import ZoneInfo
import vlib

STEM, EXT = "logfile", ".log"
UNREL = ["logfile_audit.1.log", "logfile.yaml", "config_logfile", "other.log", "logfile_2.log", "logfiles.7.log", "logfile_b.20240101.log",
         "logfile_c.20240101_000000.log"]   # incl. names that merely START with the stem and end like a rotated file
UNLIMITED = 9999
SCHEME_NO = {"I": 0, "D": 1, "T": 2}
FREQ_NO = {"N": 0, "D": 1, "H": 2, "M": 2}
UNIT = {"H": 3600, "M": 60}


def build():
    return vlib.build("h_rot", [vlib.HARNESS / "h_rot.cpp"])


def load_proposed(ck):
    """Interim: known-finding lines proposed by this builder and not yet merged into known_findings.txt by the coordinator
    (other builders edit that file in parallel). Same format, same matching; never written at run time."""
    p = vlib.VERIF / "known_findings.d" / "C14_C15.proposed.txt"
    if p.exists():
        extra = vlib.Known(p)
        new = {k: v for k, v in extra.findings.items() if k not in ck.known.findings}
        ck.known.findings.update(new)
        if new:
            vlib.log(f"[rot] {len(new)} proposed known-finding lines loaded from {p} (pending merge into known_findings.txt)")
            ck.extra["proposed_known_findings_file"] = str(p)


# --------------------------------------------------------------------------- reference calendar
def tz_of(cfg):
    return timezone.utc if cfg["zone"] == "G" else ZoneInfo(cfg["tz"])


def suffix(t, cfg):
    if cfg["scheme"] == "I":
        return ""
    d = datetime.fromtimestamp(t, tz_of(cfg))
    return d.strftime("%Y%m%d" if cfg["scheme"] == "D" else "%Y%m%d_%H%M%S")


def next_daily(t, cfg):
    """first instant > t whose wall-clock time in the sink's zone is HH:MM:00"""
    tz = tz_of(cfg)
    hh, mm = (int(x) for x in cfg["daily"].split(":"))
    d0 = datetime.fromtimestamp(t, tz).date()
    for k in range(-1, 4):
        p = int(datetime.combine(d0 + timedelta(days=k), dtime(hh, mm)).replace(tzinfo=tz).timestamp())
        if p > t:
            return p
    raise vlib.Infra("calendar: no daily point found")


def unit_floor(t, cfg):
    u = UNIT[cfg["freq"]]
    off = int(datetime.fromtimestamp(t, tz_of(cfg)).utcoffset().total_seconds())
    return ((t + off) // u) * u - off


def first_point(t, cfg):
    if cfg["freq"] == "N":
        return None
    if cfg["freq"] == "D":
        return next_daily(t, cfg)
    return unit_floor(t, cfg) + UNIT[cfg["freq"]]


def period(cfg):
    return UNIT[cfg["freq"]] * cfg["interval"] if cfg["freq"] in UNIT else 0


def cands(t, cfg):
    if cfg["freq"] == "N":
        return []
    if cfg["freq"] == "D":
        return [next_daily(t, cfg)]
    return sorted({t + period(cfg), unit_floor(t, cfg) + period(cfg)})


# --------------------------------------------------------------------------- scripts / running the real sink
def rm_of(op):
    return 1 if (op[0] == "R" and len(op) > 3 and op[3]) else 0


def script(items):
    L = []
    for it in items:
        c = it["cfg"]
        # a Timezone::GmtTime sink must not depend on the PROCESS zone: a third of them run under New York, a third under Kolkata
        ptz = c.get("tz") or "GMT"
        if c["zone"] == "G":
            ptz = ("GMT", "America/New_York", "Asia/Kolkata")[it["k"] % 3]
        # every fourth execution installs an identity before_write callback (must not change anything observable)
        L.append(f"beh {it['k']} tz={ptz}")
        L.append(f"cfg limit={c['limit']} maxb={c['maxb']} over={c['over']} scheme={c['scheme']} freq={c['freq']} "
                 f"interval={c['interval']} daily={c['daily']} zone={c['zone']} clean={c['clean']} bw={1 if it['k'] % 4 == 3 else 0}")
        for n in it.get("pre", []):
            L.append(f"pre {n}")
        for op in it["ops"]:
            if op[0] in ("C", "R"):
                L.append(f"{op[0]} {op[1]} {op[2]} {1 if rm_of(op) else 0}")
            else:
                L.append(f"W {op[1]} {op[2]} {op[3]}")
        L.append("endbeh")
    return "\n".join(L) + "\n"


def run_batch(exe, items, timeout=600):
    """Run a list of histories in one harness process. Returns {k: [observation per op]} (possibly incomplete)."""
    d = vlib.scratch("rot")
    try:
        (d / "s.txt").write_text(script(items))
        rc, so, se = vlib.run_cmd([exe, d / "s.txt", d / "o.ndjson", d / "root"], timeout=timeout)
        out = {}
        p = d / "o.ndjson"
        if p.exists():
            for line in p.read_text().splitlines():
                try:
                    o = json.loads(line)
                except Exception:
                    continue
                out.setdefault(o["k"], []).append(o)
        return rc, out
    finally:
        vlib.rm(d)


def run_all(exe, items, nb=None, timeout=600):
    """Run all histories (parallel batches). Histories whose process died are re-run alone; what is still missing is
    reported to the contract as an operation that failed (err)."""
    nb = nb or vlib.NCPU
    batches = [items[i::nb] for i in range(nb) if items[i::nb]]
    obs = {}
    with ThreadPoolExecutor(max_workers=vlib.NCPU) as ex:
        for (rc, out) in ex.map(lambda b: run_batch(exe, b, timeout), batches):
            if rc == -9:
                raise vlib.Infra("h_rot timeout (hang)")
            obs.update(out)
    redo = [it for it in items if len(obs.get(it["k"], [])) != len(it["ops"])]
    for it in redo[:50]:
        rc, out = run_batch(exe, [it], 120)
        obs[it["k"]] = out.get(it["k"], [])
    return obs


# --------------------------------------------------------------------------- normalisation -> TraceRotate lines
def parse_name(n, scheme):
    """-> (k, datestr, x): k 0 current, 1 rotated per scheme, 2 related but not per scheme, 3 unrelated"""
    if n == STEM + EXT:
        return 0, "", 0
    if not (n.startswith(STEM + ".") and n.endswith(EXT)):
        return 3, "", 0
    mid = n[len(STEM) + 1:len(n) - len(EXT)]
    if scheme == "I":
        m = re.fullmatch(r"([1-9]\d{0,8})", mid)
        return (1, "", int(m.group(1))) if m else (2, "", 0)
    m = re.fullmatch(r"(\d{8})(?:\.([1-9]\d{0,8}))?" if scheme == "D" else r"(\d{8}_\d{6})(?:\.([1-9]\d{0,8}))?", mid)
    return (1, m.group(1), int(m.group(2) or 0)) if m else (2, "", 0)


def trace_lines(it, obs):
    """One reset line + one line per operation. Times are made relative (TLC ints are 32 bit), date suffixes are
    replaced by their chronological rank."""
    cfg = it["cfg"]
    ops = it["ops"]
    ts = [op[2] if op[0] in ("C", "R") else op[3] for op in ops]
    base = min(ts) - 100
    dates = {suffix(t, cfg) for t in ts}
    for o in obs:
        for f in o["files"]:
            k, ds, x = parse_name(f["n"], cfg["scheme"])
            if k == 1:
                dates.add(ds)
    dates.discard("")
    rank = {s: i + 1 for i, s in enumerate(sorted(dates))}
    rank[""] = 0
    lines = [{"op": "reset", "cfg": {"limit": cfg["limit"], "maxb": UNLIMITED if cfg["maxb"] < 0 else cfg["maxb"],
                                      "over": cfg["over"], "scheme": SCHEME_NO[cfg["scheme"]], "freq": FREQ_NO[cfg["freq"]],
                                      "P": period(cfg)}}]
    for j, op in enumerate(ops):
        t = ts[j]
        o = obs[j] if j < len(obs) else None
        files, ubad = [], 0
        if o is not None:
            seen = set()
            for f in o["files"]:
                k, ds, x = parse_name(f["n"], cfg["scheme"])
                if k == 3:
                    if f["n"] in it.get("pre", []):
                        seen.add(f["n"])
                        if not f["u"]:
                            ubad += 1
                    continue
                files.append({"k": k, "d": rank[ds], "x": x, "ids": f["ids"], "sz": f["sz"], "bad": f["bad"]})
            ubad += len(set(it.get("pre", [])) - seen)
        ln = {"op": op[0], "mode": 0, "rm": rm_of(op), "t": t - base, "dk": rank[suffix(t, cfg)], "p1": 0, "cand": [], "id": 0, "sz": 0,
              "files": files, "ubad": ubad, "err": 1 if (o is None or o["err"]) else 0}
        if op[0] in ("C", "R"):
            ln["mode"] = 1 if op[1] == "w" else 0
            p1 = first_point(t, cfg)
            ln["p1"] = 0 if p1 is None else p1 - base
        else:
            ln["id"], ln["sz"] = op[1], op[2]
            ln["cand"] = [p - base for p in cands(t, cfg)]
        lines.append(ln)
    return lines


def validate(items, obs, par=None, timeout=900):
    """TLC (TraceRotate) judges every recorded execution. Returns (rejections {k: (op index, [clauses])}, [TLCResult])."""
    par = max(1, min(par or 8, len(items) // 200 + 1))
    chunks = [items[i::par] for i in range(par) if items[i::par]]

    def one(chunk):
        import sysh
        lines, index = [], []
        for it in chunk:
            ll = trace_lines(it, obs.get(it["k"], []))
            for j, ln in enumerate(ll):
                lines.append(ln)
                index.append((it["k"], j - 1))
        r = sysh.validate_trace("TraceRotate", "TraceRotate.cfg", lines, timeout=timeout)
        if r.error or r.violated:
            raise vlib.Infra(f"TraceRotate failed: {r.error or r.violated}\n{r.out[-1500:]}")
        if r.distinct != len(lines) + 1:
            raise vlib.Infra(f"trace not fully consumed: {r.distinct} states for {len(lines)} lines")
        rej = {}
        for s in r.prints:
            if isinstance(s, str) and s.startswith("REJ "):
                j = json.loads(s[4:])
                k, opi = index[j["l"] - 1]
                rej.setdefault(k, (opi, sorted(j["why"])))
        return rej, r

    rej, rs = {}, []
    with ThreadPoolExecutor(max_workers=par) as ex:
        for (rj, r) in ex.map(one, chunks):
            rej.update(rj)
            rs.append(r)
    return rej, rs


# --------------------------------------------------------------------------- signatures of rejections
RESTART_CLAUSES = {"count_after_restart", "deleted_after_restart", "lost_after_restart", "order_after_restart"}
PRIORITY = ["error", "whole", "lost", "lost_after_restart", "dup", "alien", "order", "order_after_restart", "deleted",
            "deleted_after_restart", "size", "count", "count_after_restart", "name", "unrelated", "time_missed",
            "spurious", "named_open"]


def primary(clauses):
    for c in PRIORITY:
        if c in clauses:
            return c
    return sorted(clauses)[0]


def signature(it, obs, j, clauses):
    """Canonical signature of a rejected execution: the contract clause plus the features of the history that
    explain it (root-cause class); anything not explained by a known class gets the plain clause signature."""
    cfg, ops = it["cfg"], it["ops"]
    p = primary(clauses)
    order_cl = set(clauses) & {"order", "order_after_restart"}
    if order_cl and cfg["scheme"] in ("D", "T") and cfg["zone"] == "L":
        # local wall-clock time repeats when DST ends: a later instant gets an earlier suffix
        ts = [op[2] if op[0] in ("C", "R") else op[3] for op in ops[:j + 1]]
        sx = [suffix(t, cfg) for t in ts]
        if any(ts[a] < ts[b] and sx[a] > sx[b] for a in range(len(ts)) for b in range(a + 1, len(ts))):
            rest = set(clauses) - order_cl
            if not rest:
                return f"local-time-suffix-goes-back-when-dst-ends:scheme={cfg['scheme']}:order"
            # the order clauses are that recorded deviation; the execution shows a second one at the same time (e.g. the restart
            # that forgets rotated files): classify what remains
            clauses = sorted(rest)
            p = primary(clauses)
    if set(clauses) <= RESTART_CLAUSES and cfg["scheme"] in ("D", "T"):
        # an append-mode restart happened while rotated files existed that the scheme's recovery does not pick up
        for i in range(j, -1, -1):
            if ops[i][0] == "R" and ops[i][1] == "a" and i < len(obs):
                today = suffix(ops[i][2], cfg)
                for f in obs[i]["files"]:
                    k, ds, x = parse_name(f["n"], cfg["scheme"])
                    if k == 1 and (cfg["scheme"] == "T" or ds != today):
                        return f"append-restart-forgets-rotated-files:scheme={cfg['scheme']}:{p}"
    if cfg["freq"] == "D" and set(clauses) <= {"time_missed", "spurious"}:
        tz = tz_of(cfg)
        ts = [op[2] if op[0] in ("C", "R") else op[3] for op in ops[:j + 1]]
        offs = {datetime.fromtimestamp(t, tz).utcoffset() for t in (ts[0], ts[-1], ts[0] + 86400, ts[-1] - 86400)}
        if len(offs) > 1:
            return f"daily-point-wrong-across-utc-offset-change:{p}"
        # an earlier statement passed a daily point late (not exactly at HH:MM): the code schedules +24h from it
        nxt = first_point(ts[0], cfg)
        for i in range(1, j):
            if ops[i][0] == "W" and ts[i] >= nxt:
                if next_daily(ts[i] - 1, cfg) != ts[i]:
                    return f"daily-point-drifts-after-late-statement:{p}"
                nxt = next_daily(ts[i], cfg)
    feat = f"scheme={cfg['scheme']}:freq={cfg['freq']}"
    if any(op[0] == "R" for op in ops[:j + 1]):
        feat += ":restart=" + "".join(sorted({op[1] for op in ops[:j + 1] if op[0] == "R"}))
        if any(rm_of(op) for op in ops[:j + 1]):
            feat += ":active-file-removed"
    return f"{p}:{feat}"


def describe(it, j):
    c = it["cfg"]
    tz = tz_of(c)

    def ft(t):
        return datetime.fromtimestamp(t, tz).strftime("%Y-%m-%d %H:%M:%S")
    ops = []
    for op in it["ops"][:j + 1]:
        ops.append(f"{op[0]}({op[1]},{ft(op[2])}{',active-file-removed' if rm_of(op) else ''})" if op[0] in ("C", "R") else f"W(id={op[1]},size={op[2]},{ft(op[3])})")
    cs = (f"limit={c['limit']} max_backup={c['maxb']} overwrite={c['over']} scheme={c['scheme']} freq={c['freq']}"
          f"{'/' + str(c['interval']) if c['freq'] in UNIT else ''}{' daily=' + c['daily'] if c['freq'] == 'D' else ''} "
          f"zone={'GMT' if c['zone'] == 'G' else c['tz']} clean={c['clean']}")
    return cs + " :: " + " ".join(ops)


def judge(ck, exe, items, props, label=""):
    """Run histories on the real sink, validate with TLC, confirm every rejection class by an isolated re-run, and
    report.  `props` = set of contract clauses that belong to the calling property (others are left to the other
    check).  Returns number of executions accepted."""
    import time
    t0 = time.time()
    obs = run_all(exe, items)
    t1 = time.time()
    rej, rs = validate(items, obs, par=max(1, vlib.NCPU - 2))
    vlib.log(f"[rot] {len(items)} executions on the real sink {t1 - t0:.1f}s, TLC trace validation {time.time() - t1:.1f}s, rejected {len(rej)}")
    for r in rs:
        ck.add_tlc(r, None)
    ck.extra["trace_validation_runs"] = ck.extra.get("trace_validation_runs", 0) + len(rs)
    by_k = {it["k"]: it for it in items}
    mine, groups = {}, {}
    for k, (j, why) in rej.items():
        w = [c for c in why if c in props]
        if not w:
            continue
        mine[k] = (j, w)
        sig = signature(by_k[k], obs[k], j, w)
        groups.setdefault(sig, []).append(k)
    ck.traces_validated += len(items) - len(mine)
    # confirmation: the shortest few of each class are executed again, alone, and judged again
    ck.extra["rejection_classes"] = len(set(ck.extra.get("rejections", {})) | set(groups))
    known_first = sorted(groups.items(), key=lambda g: (ck.known.match(ck.prop, g[0]) is None, g[0]))
    n_new = 0
    for sig, ks in known_first:
        if ck.known.match(ck.prop, sig) is None:
            n_new += 1
            if n_new > 16:      # enough to act on; the rest is counted only
                continue
        ks.sort(key=lambda k: (mine[k][0], len(by_k[k]["ops"]), k))
        done = ck.extra.setdefault("rejections", {})
        if sig in done:     # class already confirmed and reported by an earlier chunk of this run
            done[sig]["executions"] += len(ks)
            continue
        confirmed = None
        for k in ks[:3]:
            it = dict(by_k[k])
            it["ops"] = it["ops"][:mine[k][0] + 1]
            if "pred" in it:
                it["pred"] = it["pred"][:mine[k][0] + 1]
            o2 = run_all(exe, [it], nb=1)
            rej2, rs2 = validate([it], o2, par=1)
            if k in rej2 and signature(it, o2[k], rej2[k][0], [c for c in rej2[k][1] if c in props]) == sig:
                confirmed = (it, o2[k], rej2[k])
                break
        if confirmed is None:
            ck.drifted(f"rejection {sig} did not repeat in isolation")
            continue
        it, o2, (j, why) = confirmed
        text = f"{'+'.join(why)} at op {j}: {describe(it, j)} => directory " + \
               json.dumps({f['n']: f['ids'] for f in o2[j]['files'] if parse_name(f['n'], it['cfg']['scheme'])[0] != 3})
        done[sig] = {"executions": len(ks), "example": text}
        ck.violation(sig, text, {"item": {kk: vv for kk, vv in it.items() if kk != "pred"}, "script": script([it]),
                                 "trace": trace_lines(it, o2), "rejected_op": j, "why": why, "harness": "h_rot"})
    return obs, mine


# --------------------------------------------------------------------------- drift: model prediction vs real directory
def drift_check(ck, items, obs, skip=()):
    n = bad = 0
    for it in items:
        if "pred" not in it or it["k"] in skip:
            continue
        n += 1
        for j, pr in enumerate(it["pred"]):
            o = obs.get(it["k"], [])
            got = {f["n"]: f["ids"] for f in o[j]["files"] if parse_name(f["n"], it["cfg"]["scheme"])[0] != 3} if j < len(o) else None
            if got != pr:
                bad += 1
                ck.drifted(f"model predicted {pr} but the sink produced {got} at op {j} of {describe(it, j)}")
                break
    ck.extra["predictions_compared"] = ck.extra.get("predictions_compared", 0) + n
    ck.extra["predictions_mismatching"] = ck.extra.get("predictions_mismatching", 0) + bad
    return bad


# --------------------------------------------------------------------------- abstract behaviour -> real history
class Mapping:
    """Maps the abstract calendar of Rotate.tla (instants = small integers) to real epoch seconds.
    base = naive local wall-clock datetime of abstract instant 0, unit = seconds per abstract unit (wall clock)."""

    def __init__(self, base, unit, zone, tz, daily="00:00", freq="N", daylen=2, dayoff=0, compare=True):
        self.base, self.unit, self.zone, self.tz, self.daily, self.freq = base, unit, zone, tz, daily, freq
        self.compare = compare     # compare the model's predicted directory (only where the abstract calendar is exact)
        self.daylen, self.dayoff = daylen, dayoff
        self.tzinfo = timezone.utc if zone == "G" else ZoneInfo(tz)

    def real(self, t):
        return int((self.base + timedelta(seconds=t * self.unit)).replace(tzinfo=self.tzinfo).timestamp())

    def name(self, d, x, scheme, cfg):
        if d == 0 and x == 0:
            return STEM + EXT
        s = STEM
        if d:
            t = (d - 1) * self.daylen - self.dayoff if scheme == "D" else d - 1
            s += "." + suffix(self.real(t), cfg)
        if x:
            s += "." + str(x)
        return s + EXT


def from_behaviour(k, b, mp, limit_bytes=512, interval_unit=None, pre=()):
    """b = {"cf": {...}, "ops": [...]} exported by Rotate.tla.  Sizes: abstract size s -> s * limit_bytes / cf.limit."""
    cf = b["cf"]
    scheme = "IDT"[cf["scheme"]]
    unit_b = limit_bytes // cf["limit"] if cf["limit"] else 128
    cfg = {"limit": limit_bytes if cf["limit"] else 0, "maxb": -1 if cf["maxb"] == 99 else cf["maxb"], "over": cf["over"],
           "scheme": scheme, "freq": mp.freq if cf["freq"] else "N", "interval": cf["N"], "daily": mp.daily,
           "zone": mp.zone, "tz": mp.tz, "clean": cf["clean"]}
    ops, pred = [], []
    for o in b["ops"]:
        t = mp.real(o["t"])
        if o["op"] == "R":
            ops.append(("R", "w" if o["mode"] == 1 else "a", t, o.get("rm", 0)))
        elif o["op"] == "C":
            ops.append(("C", "w" if o["mode"] == 1 else "a", t))
        else:
            ops.append(("W", o["id"], o["sz"] * unit_b, t))
        pred.append({mp.name(p["d"], p["x"], scheme, cfg): list(p["ids"]) for p in o["pred"]})
    it = {"k": k, "cfg": cfg, "pre": list(pre), "ops": ops}
    if mp.compare:
        it["pred"] = pred
    return it


# --------------------------------------------------------------------------- TLC configurations of Rotate.tla
DEFAULTS = dict(Limits="{4}", Sizes="{1, 3, 5}", MaxBs="{0, 1, 2, 99}", Overs="{0, 1}", Schemes="{0}", Cleans="{0, 1}",
                Modes="{0, 1}", Freqs="{0}", Intervals="{1}", DTs="{0, 1}", RMs="{0}", DayLen=2, DayOff=0, DailyOff=1, U=1, UOff=0,
                MaxOps=5, MaxRestarts=2, FixDaily="FALSE", Tolerated="{}", Export="FALSE", ExportDepth=5)


def mc_cfg(name, invariants=("ContractHolds", "TypeOK"), export=False, **consts):
    c = dict(DEFAULTS)
    c.update(consts)
    if export:
        c["Export"] = "TRUE"
    txt = "SPECIFICATION Spec\nCONSTANTS\n" + "".join(f" {k} = {v}\n" for k, v in c.items())
    if invariants:
        txt += "INVARIANTS " + " ".join(invariants) + "\n"
    txt += "VIEW StateView\n" + ("ACTION_CONSTRAINT ExportA\n" if export else "") + "CHECK_DEADLOCK FALSE\n"
    return vlib.write_cfg(vlib.BUILD / "cfg" / (name + ".cfg"), txt)


def tlc_parallel(jobs):
    """jobs: list of (label, cfgpath, kwargs[, workers]). Runs them concurrently, sharing the cores."""
    w = max(2, vlib.NCPU // max(1, len(jobs)))

    def one(j):
        nw = j[3] if len(j) > 3 else w
        kw = dict(heap="2g" if nw == 1 else "6g")
        kw.update(j[2])
        r = vlib.tlc("Rotate", j[1], workers=nw, **kw)
        if r.error and "timeout" not in r.error:
            vlib.log(f"[rot] TLC job {j[0]} failed ({r.error[:200]}); retrying once")
            r = vlib.tlc("Rotate", j[1], workers=nw, **kw)
        if r.error:
            raise vlib.Infra(f"{j[0]}: {r.error}\n{r.out[-2000:]}")
        return r
    with ThreadPoolExecutor(max_workers=len(jobs)) as ex:
        futs = [ex.submit(one, j) for j in jobs]
        return [(jobs[i][0], f.result()) for i, f in enumerate(futs)]


def must_hold(ck, label, r, count=True):
    if r.violated:
        raise vlib.Infra(f"model {label} violates {r.violated}: the transcription and the contract disagree outside the "
                         f"known deviations (model problem, not a verdict)")
    if count:
        ck.add_tlc(r, label)


def reach_jobs(ck, consts, names):
    """vacuity control: each reachability predicate must be VIOLATED (the situation is reachable in the model)."""
    return [("Reach_" + n, mc_cfg("Reach_" + ck.prop + "_" + n, invariants=(n,), **consts), dict(timeout=600), 1) for n in names]


def reach_check(ck, res, names):
    for n in names:
        r = res["Reach_" + n]
        if r.violated != n:
            raise vlib.Infra(f"vacuity: situation {n} is not reachable in the model")
        ck.add_tlc(r, "Reach_" + n)


def take_behaviours(ck, res, label):
    r = res[label]
    b = vlib.behaviours(r)
    if len(b) < 1000:
        raise vlib.Infra(f"behaviour export {label} produced too few histories ({len(b)})")
    r.out, r.prints = "", []
    ck.add_tlc(r, label)
    return b


def coverage_selftest(r, actions=("AConstruct", "AWrite", "ARestart")):
    for a in actions:
        if r.coverage.get(a, (0, 0))[1] == 0:
            raise vlib.Infra(f"vacuity: action {a} never enabled")


def final_dir(it, obs):
    o = obs.get(it["k"], [])
    return {f["n"]: f["ids"] for f in o[-1]["files"]} if o else {}


def rotated_count(it, obs):
    return sum(1 for n in final_dir(it, obs) if parse_name(n, it["cfg"]["scheme"])[0] == 1)


def key_of(it):
    c = it["cfg"]
    return json.dumps([[c[k] for k in sorted(c)], it["ops"]])


def replay(ck, path):
    j = json.loads(open(path).read())["replay"]
    it = j["item"]
    it["ops"] = [tuple(o) for o in it["ops"]]
    exe = build()
    obs = run_all(exe, [it], nb=1)
    rej, rs = validate([it], obs, par=1)
    for o in obs.get(it["k"], []):
        print(json.dumps({"op": o["op"], "i": o["i"], "err": o["err"], "files": {f["n"]: f["ids"] for f in o["files"]}}))
    print("contract:", "REJECTED " + json.dumps(rej[it["k"]]) if it["k"] in rej else "accepted")


def process(ck, exe, items, props, chunk=40000, nsamples=2):
    """judge + drift comparison + case accounting, in chunks (bounded memory)."""
    total_rej = 0
    for a in range(0, len(items), chunk):
        part = items[a:a + chunk]
        obs, mine = judge(ck, exe, part, props)
        drift_check(ck, part, obs, skip=())
        for it in part:
            ck.case(key_of(it), rotated_count(it, obs) > 0)
        if a == 0:
            step = max(1, len(part) // nsamples)
            for it in part[step // 2::step][:nsamples]:
                ck.sample({"config": it["cfg"], "ops": [list(o) for o in it["ops"][:14]], "final_directory": final_dir(it, obs)})
        total_rej += len(mine)
        for it in part:
            it.pop("pred", None)
    ck.extra["executions_rejected"] = ck.extra.get("executions_rejected", 0) + total_rej
