#!/bin/bash
# seedregress_some.sh <jobs> <name-regex> : like seedregress.sh, for the kept seeded changes whose directory name matches the regex
cd "$(dirname "$0")/.."
J=${1:-3}; RE=$2
run_one() {
  d=$1; n=$(basename $d)
  prop=$(python3 -c "import json;print(json.load(open('$d/meta.json'))['property'])")
  pf=$d/patch.diff; [ -f $d/patch_rebased.diff ] && pf=$d/patch_rebased.diff
  out=$(timeout 3000 python3 tools/mutate.py $prop --patch $pf 2>&1)
  rc=$?
  if echo "$out" | grep -q "^VIOLATION property=$prop"; then echo "$n $prop DETECTED";
  elif [ $rc -eq 0 ]; then echo "$n $prop MISSED"; else echo "$n $prop ERROR rc=$rc $(echo "$out" | grep -v '^\[' | tail -1 | cut -c1-200)"; fi
}
export -f run_one
ls -d seeded/*/ | grep -E "$RE" | xargs -P $J -I{} bash -c 'run_one {}'
