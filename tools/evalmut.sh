#!/bin/bash
# evalmut.sh <worktree> <mutdir> <prop> : confirm the demo (clean pass / mutated fail) in the scratch worktree, then run the check against the patch
wt=$1; d=$2; prop=$3
git -C $wt checkout -q -- . 
(cd $d && timeout 600 bash demo.sh > /tmp/demo_clean.log 2>&1; echo "  demo clean rc=$?")
if git -C $wt apply $d/patch.diff; then (cd $d && timeout 600 bash demo.sh > /tmp/demo_mut.log 2>&1; echo "  demo mutated rc=$?"); else echo "  PATCH DOES NOT APPLY"; fi
git -C $wt checkout -q -- .
timeout 3000 /verif/tools/mutate.py $prop --patch $d/patch.diff 2>&1 | grep -v "^\[build\|^\[rot\]\|^\[C1" | tail -3 | cut -c1-260
