"""Design-level part of the dispatch properties (C16, C10): spec/Dispatch.tla (layer I) model-checked, its behaviours
judged by the contract (I => A) and replayed on the real code through harness/h_sys, each replayed execution judged by
the contract again (trace validation) and compared step by step with what the model predicted (drift)."""
import json, random
from concurrent.futures import ThreadPoolExecutor
import vlib, sysh, qsys, qtrace

QK = "UB:4096:16384"
EXPORT_ALL_LIMIT = 150000
SIM_NUM, SIM_DEPTH = 4000, 40

# configurations: loggers/sinks topology, levels, filters, faults, bounds
BASE = dict(order=["L0", "L1"], lsinks={"L0": ["S0", "S1"], "L1": ["S1"]}, stmt=[3, 5], thr=[4], deny=[[1], [2]],
            kinds=["macro", "dyn"], nstmt=2, nops=1, nidle=1, nflush=0, tw={}, tf={}, bad=False, named=False, memory=0, ov=[])
CONFIGS = {
    "C16": {
        "quick": [("two-sinks", dict(ov=["S1"])),
                  ("ops2", dict(nops=2, kinds=["dynmacro"], stmt=[5], thr=[6], deny=[[1]], ov=["S0"]))],
        "thorough": [("two-sinks-3stmt", dict(nstmt=3, deny=[[1], [2, 3]], kinds=["macro", "dynmacro", "direct", "dyn"], ov=["S1"])),
                     ("ops2", dict(nops=2, kinds=["macro"], stmt=[3, 5], thr=[4], ov=["S0"])),
                     ("three-sinks", dict(lsinks={"L0": ["S0", "S1", "S2"], "L1": ["S2", "S0"]}, nops=2, kinds=["direct"], stmt=[3, 7],
                                          thr=[4, 10], deny=[[2]], ov=["S2"])),
                     ("ops3-sim", dict(nstmt=3, nops=3, nidle=1, thr=[4, 8], stmt=[3, 5], kinds=["macro"], deny=[[1], [2, 3]]))]},
    "C10": {
        "quick": [("mid-sink-throws", dict(lsinks={"L0": ["S0", "S1", "S2"], "L1": ["S1"]}, tw={"S1": [1]}, tf={"S0": [1]}, bad=True,
                                           kinds=["macro"], stmt=[5], nops=1, nidle=1, nflush=1, nstmt=3, deny=[[2]])),
                  ("named-throw", dict(lsinks={"L0": ["S0", "S1"], "L1": ["S1"]}, tw={"S0": [1], "S1": [2]}, named=True, bad=["bombint", "namedbomb"], kinds=["macro"], memory=2,
                                       stmt=[5], nops=0, nidle=1, nstmt=4, deny=[[2]]))],
        "thorough": [("mid-sink-throws", dict(lsinks={"L0": ["S0", "S1", "S2"], "L1": ["S1"]}, tw={"S1": [1, 3]}, tf={"S0": [1], "S2": [2]},
                                              bad=True, kinds=["macro"], stmt=[5], nops=1, nidle=2, nflush=1, nstmt=4, deny=[[2]])),
                     ("first-sink-throws", dict(lsinks={"L0": ["S0", "S1"], "L1": ["S1", "S0"]}, tw={"S0": [2], "S1": [2]}, tf={"S1": [1, 2]},
                                                bad=True, kinds=["direct"], stmt=[3, 5], nops=1, nidle=1, nflush=2, nstmt=3, deny=[[1]])),
                     ("named-throw", dict(lsinks={"L0": ["S0", "S1"], "L1": ["S1"]}, tw={"S0": [1, 4], "S1": [2]}, named=True, bad=["bombstd", "namedbomb"], kinds=["macro"], memory=2,
                                          stmt=[5], nops=1, nidle=1, nflush=1, nstmt=4, deny=[[2]])),
                     ("bad-only", dict(bad=["badfmt", "bombint"], tw={}, tf={}, nstmt=4, nops=2, nidle=1, kinds=["macro"], stmt=[5], deny=[[1], [3]]))]},
}
INVS = ["TypeOK", "NoDupInOrder", "OnlyOwnSinks"]
ACTIONS = ["Log", "SetLevel", "SinkLevel", "AddFilter", "BPoll"]
FLUSH_ACTIONS = ["FlushCall", "FlushRet"]


def _set(xs):
    return "{" + ",".join(str(x) if not isinstance(x, str) else '"%s"' % x for x in xs) + "}"


def _sinks(c):
    out = []
    for l in c["order"]:
        for s in c["lsinks"][l]:
            if s not in out:
                out.append(s)
    return sorted(out)


def cfg_text(c, export):
    b = lambda x: "TRUE" if x else "FALSE"
    sinks = _sinks(c)
    ls = "(" + " @@ ".join('"%s" :> <<%s>>' % (l, ",".join('"%s"' % s for s in c["lsinks"][l])) for l in c["order"]) + ")"
    fn = lambda d: "(" + " @@ ".join('"%s" :> %s' % (s, _set(d.get(s, []))) for s in sinks) + ")"
    txt = ("SPECIFICATION Spec\nCONSTANTS\n LoggerOrder <- const_order\n LoggerSinks <- const_lsinks\n SinkNames = %s\n StmtLevels = %s\n"
           " Thresholds = %s\n DenySets <- const_deny\n Kinds = %s\n NStmt = %d\n NOps = %d\n NIdle = %d\n NFlush = %d\n ThrowW <- const_tw\n ThrowF <- const_tf\n"
           " BadKinds = %s\n AllowNamed = %s\n Memory = %d\n Export = %s\nINVARIANTS %s\nVIEW StateView\n%sCHECK_DEADLOCK FALSE\n"
           % (_set(sinks), _set(c["stmt"]), _set(c["thr"]), _set(c["kinds"]), c["nstmt"], c["nops"], c["nidle"], c["nflush"], _set(c["bad"] if isinstance(c["bad"], list) else (["badfmt"] if c["bad"] else [])), b(c["named"]), c["memory"],
              b(bool(export)), " ".join(INVS),
              {True: "ACTION_CONSTRAINT ExportA\n", "sim": "ACTION_CONSTRAINT ExportSim\n"}.get(export, "")))
    defs = ("const_order == <<%s>>\nconst_lsinks == %s\nconst_deny == {%s}\nconst_tw == %s\nconst_tf == %s\n"
            % (",".join('"%s"' % l for l in c["order"]), ls, ",".join(_set(d) for d in c["deny"]), fn(c["tw"]), fn(c["tf"])))
    return txt, defs


def _copy_atomic(src, dst):
    """checks of different properties may run side by side and share this directory: never expose a half-written copy"""
    import os
    txt = src.read_text()
    if dst.exists() and dst.read_text() == txt:
        return
    tmp = dst.with_suffix(".tmp%d" % os.getpid())
    tmp.write_text(txt)
    os.replace(tmp, dst)


def write_model(name, c, export):
    """TLC needs the structured constants as definitions: a wrapper module MC_<name> EXTENDS Dispatch."""
    txt, defs = cfg_text(c, export)
    mod = f"MCD_{name}"
    d = vlib.BUILD / "dispatch"
    d.mkdir(parents=True, exist_ok=True)
    (d / (mod + ".tla")).write_text(f"---- MODULE {mod} ----\nEXTENDS Dispatch\n{defs}====\n")
    for f in ("Dispatch.tla",):
        _copy_atomic(vlib.SPEC / f, d / f)
    cfg = vlib.write_cfg(d / (mod + ".cfg"), txt)
    return mod, cfg, d


def script_of(beh, c):
    L = ["cfg soft=16 hard=16 ring=2 grace=0"]
    for s in _sinks(c):
        o = f"sink {s} lvl=0"
        if c["tw"].get(s):
            o += " tw=" + ",".join(map(str, c["tw"][s]))
        if c["tf"].get(s):
            o += " tf=" + ",".join(map(str, c["tf"][s]))
        if s in c["ov"]:
            o += " ov=1"
        L.append(o)
    for l in c["order"]:
        L.append(f"logger {l} sinks={','.join(c['lsinks'][l])} lvl=0")
    L.append("start t1")
    for h in beh:
        if h["k"] != "step":
            continue
        L.append("mark step")
        a = h["arg"]
        if h["act"] == "log":
            L.append(f"T t1 log {a[0]} lvl={a[1]} id={a[3]} pad=0 kind={a[2]}")
        elif h["act"] == "logbad":
            L.append(f"T t1 log {a[0]} lvl=4 id={a[1]} pad=0 kind={a[2]}")
        elif h["act"] == "lognamed":
            L.append(f"T t1 log {a[0]} lvl=4 id={a[1]} pad=0 kind=named")
        elif h["act"] == "setlevel":
            L.append(f"setlevel {a[0]} {a[1]}")
        elif h["act"] == "sinklevel":
            L.append(f"sinklevel {a[0]} {a[1]}")
        elif h["act"] == "addfilter":
            ev = next(x for x in beh[beh.index(h):] if x["k"] == "addfilter")
            L.append(f"addfilter {a[0]} F{a[1]} " + ("all=1" if a[2] else "deny=" + ",".join(map(str, ev["deny"]))))
        elif h["act"] == "flushcall":
            L.append(f"T t1 flush {a[0]}")
        elif h["act"] == "flushret":
            L.append("T t1 go")
        elif h["act"] == "poll":
            L.append("B poll")
            if a[0] == "idle":
                L.append("mark q")
    L.append("mark step")
    # let everything drain and mark the final quiescent point
    L += ["B drain", "T t1 go", "B drain", "B poll", "B poll", "mark qf", "end"]
    return "\n".join(L) + "\n"


def _proj_model(beh):
    steps, cur = [], None
    for h in beh:
        if h["k"] == "step":
            cur = []
            steps.append((h, cur))
        elif h["k"] == "write":
            cur.append(("w", h["s"], h["id"], h["thr"]))
        elif h["k"] == "sflush":
            cur.append(("f", h["s"], h["thr"]))
        elif h["k"] == "notify":
            cur.append(("n", h["cls"]))
        elif h["k"] == "logret":
            cur.append(("r", h["id"], h["argevals"]))
        elif h["k"] == "flushret":
            cur.append(("fr",))
    return steps


def compare(beh, evs):
    """what every step of the model wrote / flushed / reported vs what the real code did in that step"""
    steps = _proj_model(beh)
    real, cur, started = [], [], False
    for e in evs:
        k = e.get("e")
        if k == "Mark" and e["what"] == "step":
            if started:
                real.append(cur)
            started, cur = True, []
        elif k == "Write":
            cur.append(("w", e["s"], e["id"], bool(e.get("thr"))))
        elif k == "SinkFlush":
            cur.append(("f", e["s"], bool(e.get("thr"))))
        elif k == "Notify":
            cur.append(("n", e["cls"]))
        elif k == "LogRet":
            cur.append(("r", e["id"], e["argevals"]))
        elif k == "FlushRet":
            cur.append(("fr",))
    if len(real) < len(steps):
        return f"harness stopped after {len(real)} of {len(steps)} steps"
    for j, (h, exp) in enumerate(steps):
        if real[j] != exp:
            return f"step {j} {h['who']}.{h['act']}{h['arg']}: code={real[j]} model={exp}"
    return None


def contract_lines_of_model(beh, c):
    out = [{"k": "cfg", "grace": 0, "dropping": False, "bounded": False}]
    for s in _sinks(c):
        out.append({"k": "sink", "s": s, "lvl": 0, "tw": c["tw"].get(s, []), "tf": c["tf"].get(s, [])})
    for l in c["order"]:
        out.append({"k": "logger", "lg": l, "sinks": c["lsinks"][l], "fsinks": [], "lvl": 0, "sys": True, "fresh": True})
    for h in beh:
        if h["k"] == "step":
            continue
        if h["k"] == "write":
            if h["id"] < 0:
                continue
            h = dict(h, intact=True, fmt=True)
        out.append(h)
    return out


def run_config(ck, prop, label, c, quick, rng, replay_limit):
    name = f"{prop}_{label}".replace("-", "_")
    mod, cfg, d = write_model(name, c, True if quick else "hist")
    r = vlib.tlc(mod, cfg, specdir=d, timeout=1500, heap="12g", coverage=quick)
    if r.error:
        raise vlib.Infra(r.error + r.out[-1500:])
    ck.add_tlc(r, f"Dispatch {label}")
    if r.violated:
        raise vlib.Infra(f"Dispatch.tla violates its own invariant {r.violated} in {label}")
    if quick:
        for a in [x for x in ACTIONS if c["nops"] or x in ("Log", "BPoll")] + (["LogBad"] if c["bad"] else []) + (["LogNamed"] if c["named"] else []) + (FLUSH_ACTIONS if c["nflush"] else []):
            if not vlib.enabled(r, a):
                raise vlib.Infra(f"vacuity: {a} never enabled in Dispatch.tla config {label}")
    rx = r
    if not quick:
        if r.generated <= EXPORT_ALL_LIMIT:
            mod, cfg, d = write_model(name + "_x", c, True)
            rx = vlib.tlc(mod, cfg, specdir=d, timeout=1500, heap="12g")
        else:
            mod, cfg, d = write_model(name + "_s", c, "sim")
            rx = vlib.tlc(mod, cfg, specdir=d, timeout=1500, heap="8g", simulate=SIM_NUM // 8, depth=SIM_DEPTH + 2, workers=8,
                          seed=rng.randrange(1 << 30), dump_trace=False)
            ck.extra.setdefault("simulated_export", []).append(label)
        if rx.error:
            raise vlib.Infra(rx.error)
    behs = vlib.behaviours(rx)
    if not behs:
        raise vlib.Infra(f"no behaviours exported ({label})")
    cfgname = f"TraceQuill_{prop}.cfg"
    # I => A
    sample = behs if len(behs) <= 6000 else rng.sample(behs, 6000)
    lines = []
    for b in sample:
        lines += contract_lines_of_model(b, c)
    rv = sysh.validate_trace("TraceQuill", cfgname, lines, timeout=1200)
    if rv.error:
        raise vlib.Infra(rv.error)
    ck.add_tlc(rv, f"I=>A Dispatch {label}")
    if rv.violated:
        flag = "ok" + prop[1:]
        raise vlib.Infra(f"Dispatch behaviour rejected by the contract ({label}): {rv.trace[-1]['m']['why'].get(flag)}")
    ck.extra["dispatch_traces_accepted_by_contract"] = ck.extra.get("dispatch_traces_accepted_by_contract", 0) + len(sample)
    # replay on the real code: contract decides, comparison with the model's prediction is drift
    todo = behs if len(behs) <= replay_limit else rng.sample(behs, replay_limit)
    scen = [(f"{prop}-disp-{label}-{i}", QK, script_of(b, c), 0) for i, b in enumerate(todo)]
    res = qsys.run_and_validate(ck, prop, cfgname, scen, qsys.exe_of, f"disp-{label}")
    ndrift = 0
    for b, (rc, evs) in zip(todo, res):
        dmsg = compare(b, evs)
        if dmsg:
            ndrift += 1
            if ndrift <= 3:
                ck.drifted(f"Dispatch {label}: {dmsg}")
    ck.extra["dispatch_behaviours_replayed"] = ck.extra.get("dispatch_behaviours_replayed", 0) + len(todo)
    ck.extra["dispatch_behaviours_drifting"] = ck.extra.get("dispatch_behaviours_drifting", 0) + ndrift
    if todo:
        b = todo[len(todo) // 2]
        ck.sample({"dispatch_config": label, "schedule": [[h["who"], h["act"], h["arg"]] for h in b if h["k"] == "step"]}, cap=5)
    return r


def run_for(ck, prop):
    quick = ck.tier == "quick"
    rng = random.Random(ck.seed + 29)
    for label, d in CONFIGS[prop]["quick" if quick else "thorough"]:
        c = dict(BASE)
        c.update(d)
        run_config(ck, prop, label, c, quick, rng, (12000 if prop == "C16" else 3000) if quick else 20000)
