// Logger-removal harness: the REAL quill::detail::LoggerManager (remove_logger, cleanup_invalidated_loggers), the REAL
// LoggerBase::valid flag and a REAL bounded SPSC queue on the shim std::atomic of shim_ra.h (release/acquire model of
// spec/RemoveRA.tla). Two logical threads: P logs through the logger and removes it (two stores: the valid flag, then the
// manager's "has invalidated loggers" flag - a separate step each), B is the backend: queue reads and one call of
// cleanup_invalidated_loggers() whose three loads read the messages the script chooses.
//   h_remove <script> <trace-out>
// script: init | P write | P remove1 | P remove2 | B read <iw> | B clean <ih> <ig> <iw> | end   (1-based, 0 = latest)
#include <cstdio>
#include <cstring>
#include <memory>
#include <sstream>
#include "shim_ra.h"
#include "quill/backend/ThreadUtilities.h"
#define atomic verif_atomic
#include "quill/core/LoggerManager.h"
#include "quill/core/BoundedSPSCQueue.h"
#undef atomic

using namespace quill;
using namespace quill::detail;

struct TestLogger : LoggerBase
{
  using LoggerBase::LoggerBase;
};

int main(int argc, char** argv)
{
  if (argc < 3) { std::fprintf(stderr, "usage: h_remove <script> <trace-out>\n"); return 2; }
  std::ifstream in(argv[1]);
  shim::g_out.open(argv[2]);
  LoggerManager& lm = LoggerManager::instance();
  std::unique_ptr<BoundedSPSCQueue> q;
  LoggerBase* lg = nullptr;
  long committed = 0, consumed = 0;
  bool requested = false;
  constexpr size_t REC = 8;
  std::string line;
  while (std::getline(in, line))
  {
    std::stringstream ss(line);
    std::string c, op;
    ss >> c;
    if (c == "init")
    {
      shim::g_thr = -1;
      shim::g_names.clear();
      shim::g_choices.clear();
      shim::g_clk[0] = shim::g_clk[1] = shim::Clock{};
      committed = consumed = 0;
      requested = false;
      q = std::make_unique<BoundedSPSCQueue>(64, HugePagesPolicy::Never);
      lg = lm.create_or_get_logger<TestLogger>("L", std::vector<std::shared_ptr<Sink>>{}, PatternFormatterOptions{},
                                               ClockSourceType::System, nullptr);
      shim::g_names[&q->_atomic_writer_pos] = "W";
      shim::g_names[&lg->valid] = "G";
      shim::g_names[&lm._has_invalidated_loggers] = "H";
      shim::g_out << "{\"e\":\"init\"}\n";
    }
    else if (c == "P")
    {
      ss >> op;
      shim::g_thr = 0;
      if (op == "write")
      {
        std::byte* p = q->prepare_write(REC);
        if (!p) { shim::g_out << "{\"e\":\"full\"}\n"; continue; }
        std::memset(p, 0x5a, REC);
        q->finish_write(REC);
        q->commit_write();
        ++committed;
        shim::g_out << "{\"e\":\"committed\",\"n\":" << committed << "}\n";
      }
      else if (op == "remove1")
      {
        // LoggerManager::remove_logger is two stores; the script runs them as two steps. This is its first statement ...
        lg->mark_invalid();
        shim::g_out << "{\"e\":\"invalidated\"}\n";
      }
      else if (op == "remove2")
      {
        // ... and this its second, through the real function on a logger that is already invalid (the repeated store of the
        // valid flag is the same value by the same thread)
        lm.remove_logger(lg);
        requested = true;
        shim::g_out << "{\"e\":\"requested\"}\n";
      }
    }
    else if (c == "B")
    {
      ss >> op;
      shim::g_thr = 1;
      if (op == "read")
      {
        long iw = 0;
        ss >> iw;
        shim::g_choices.clear();
        shim::g_choices["W"].push_back(iw);
        long n = 0;
        while (true)
        {
          if (n > 0 && q->_writer_pos_cache == q->_reader_pos) break;
          std::byte* p = q->prepare_read();
          if (!p) break;
          q->finish_read(REC);
          ++n;
        }
        if (n > 0) q->commit_read();
        consumed += n;
        shim::g_choices.clear();
        shim::g_out << "{\"e\":\"read\",\"n\":" << n << ",\"consumed\":" << consumed << "}\n";
      }
      else if (op == "clean")
      {
        long ih = 0, ig = 0, iw = 0;
        ss >> ih >> ig >> iw;
        shim::g_choices.clear();
        shim::g_choices["H"].push_back(ih);
        shim::g_choices["G"].push_back(ig);
        shim::g_choices["W"].push_back(iw);
        std::vector<std::string> const removed = lm.cleanup_invalidated_loggers([&] { return q->empty(); });
        shim::g_choices.clear();
        shim::g_out << "{\"e\":\"clean\",\"removed\":" << removed.size() << "}\n";
        if (!removed.empty())
        {
          shim::g_names.erase(&lg->valid);   // (address of a freed object)
          lg = nullptr;
          shim::g_out << "{\"e\":\"erase\",\"committed\":" << committed << ",\"consumed\":" << consumed << "}\n";
        }
      }
    }
    else if (c == "end") break;
  }
  shim::g_thr = -1;
  bool const present = lm.get_number_of_loggers() != 0;
  bool const armed = lm._has_invalidated_loggers.h.back().val;
  shim::g_out << "{\"e\":\"end\",\"requested\":" << (requested ? "true" : "false") << ",\"present\":" << (present ? "true" : "false")
              << ",\"armed\":" << (armed ? "true" : "false") << ",\"badchoice\":" << (shim::g_bad_choice ? "true" : "false") << "}\n";
  shim::g_out.close();
  std::_Exit(0);
}
