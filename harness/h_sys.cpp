// System-level harness: drives the real quill frontend + (manual) backend from a line-based script under
// the deterministic token scheduler and writes a totally ordered ndjson event trace.
//   h_sys <script> <trace-out>
// Build-time parameters: -DVQ_TYPE=<QueueType enumerator> -DVQ_CAP=<bytes> -DVQ_MAX=<bytes> [-DQUILL_VERIF]
#include "vsched.h"

#include "quill/Backend.h"
#include "quill/Frontend.h"
#include "quill/LogMacros.h"
#include "quill/Logger.h"
#include "quill/UserClockSource.h"
#include "quill/sinks/FileSink.h"
#include "quill/sinks/Sink.h"

#include <deque>
#include <fstream>
#include <iostream>
#include <memory>
#include <set>

#ifndef VQ_TYPE
  #define VQ_TYPE UnboundedBlocking
#endif
#ifndef VQ_CAP
  #define VQ_CAP 1024
#endif
#ifndef VQ_MAX
  #define VQ_MAX 4096
#endif

struct VFrontendOptions
{
  static constexpr quill::QueueType queue_type = quill::QueueType::VQ_TYPE;
  static constexpr size_t initial_queue_capacity = VQ_CAP;
  static constexpr uint32_t blocking_queue_retry_interval_ns = 800;
  static constexpr size_t unbounded_queue_max_capacity = VQ_MAX;
  static constexpr quill::HugePagesPolicy huge_pages_policy = quill::HugePagesPolicy::Never;
};
using VFrontend = quill::FrontendImpl<VFrontendOptions>;
using VLogger = quill::LoggerImpl<VFrontendOptions>;
using quill::LogLevel;
using vs::Ev;

static constexpr bool kBounded = (VFrontendOptions::queue_type == quill::QueueType::BoundedBlocking) ||
  (VFrontendOptions::queue_type == quill::QueueType::BoundedDropping);

// ------------------------------------------------------------------ user clock
struct VUserClock : quill::UserClockSource
{
  std::atomic<uint64_t> v{0};
  uint64_t now() const override { return v.load(); }
};
static VUserClock g_user_clock;

// ------------------------------------------------------------------ a user type whose formatter can throw
struct Bomb
{
  int mode;   // 0 ok, 1 throws std::runtime_error, 2 throws int
  int id;
};
template <>
struct fmtquill::formatter<Bomb>
{
  constexpr auto parse(format_parse_context& ctx) { return ctx.begin(); }
  auto format(Bomb const& b, format_context& ctx) const
  {
    { Ev e{"Format"}; e.s("t", vs::tl_self ? vs::tl_self->name : "?").i("id", b.id); }
    if (b.mode == 1) throw std::runtime_error("bomb-std");
    if (b.mode == 2) throw 42;
    return fmtquill::format_to(ctx.out(), "bomb");
  }
};
#include "quill/DeferredFormatCodec.h"
template <>
struct quill::Codec<Bomb> : quill::DeferredFormatCodec<Bomb>
{
};

static std::map<long, std::string> g_expected;   // statement id -> message text the call site expects (where defined)
static std::mutex g_expm;

// ------------------------------------------------------------------ recording sink / filter
static long parse_id(std::string_view msg)
{
  // statements carry their id as "m<id> ..." at the start of the message
  if (msg.size() < 2 || msg[0] != 'm') return -1;
  long v = 0;
  size_t i = 1;
  bool any = false;
  while (i < msg.size() && msg[i] >= '0' && msg[i] <= '9') { v = v * 10 + (msg[i] - '0'); ++i; any = true; }
  return any ? v : -1;
}

struct RecSink : quill::Sink
{
  std::string name;
  std::set<long> throw_write, throw_flush;   // 1-based call indexes that throw
  int throw_kind{1};
  long nwrite{0}, nflush{0};
  bool full_text{false};
  bool has_override{false};
  explicit RecSink(std::string n, std::optional<quill::PatternFormatterOptions> o = std::nullopt)
    : quill::Sink(o), name(std::move(n)), has_override(o.has_value()) {}
  ~RecSink() override { Ev e{"SinkDestroyed"}; e.s("s", name); }

  void write_log(quill::MacroMetadata const* md, uint64_t ts, std::string_view thread_id, std::string_view,
                 std::string const&, std::string_view logger_name, LogLevel lvl, std::string_view lvl_desc,
                 std::string_view, std::vector<std::pair<std::string, std::string>> const* named,
                 std::string_view msg, std::string_view stmt) override
  {
    ++nwrite;
    bool const thr = throw_write.count(nwrite) != 0;
    {
      Ev e{"Write"};
      e.s("s", name).i("id", parse_id(msg)).i("lvl", static_cast<int>(lvl)).s("lg", logger_name)
        .u("ts", (ts - vs::kBaseNs) / vs::kUnitNs).i("n", nwrite).b("thr", thr).s("tid", thread_id)
        .s("ld", lvl_desc).i("mlen", static_cast<long long>(msg.size()));
      long const sid = parse_id(msg);
      bool intact = true;
      {
        std::lock_guard<std::mutex> l{g_expm};
        auto it = g_expected.find(sid);
        if (it != g_expected.end()) intact = (msg == it->second);
      }
      // the harness' patterns: loggers use "%(message)", override sinks "OV %(message)"
      std::string want = (has_override ? std::string{"OV "} : std::string{}) + std::string{msg} + "\n";
      e.b("intact", intact).b("fmt", stmt == want).i("nnamed", named ? static_cast<long long>(named->size()) : 0);
      if (full_text) { e.s("msg", msg).s("stmt", stmt); }
      else { e.s("msg", msg.substr(0, 24)).s("stmt", stmt.substr(0, 48)); }
      if (named && !named->empty())
      {
        std::string a = "[";
        for (size_t k = 0; k < named->size(); ++k)
        {
          if (k) a += ",";
          a += "[\"" + vs::jesc((*named)[k].first) + "\",\"" + vs::jesc((*named)[k].second) + "\"]";
        }
        a += "]";
        e.raw("named", a);
      }
    }
    if (thr)
    {
      if (throw_kind == 2) throw 7;
      throw std::runtime_error("sink-write-throws");
    }
  }

  void flush_sink() override
  {
    ++nflush;
    bool const thr = throw_flush.count(nflush) != 0;
    { Ev e{"SinkFlush"}; e.s("s", name).i("n", nflush).b("thr", thr); }
    if (thr) throw std::runtime_error("sink-flush-throws");
  }
};

struct RecFilter : quill::Filter
{
  std::string sink;
  std::set<long> deny;   // statement ids this filter rejects
  bool deny_all{false};
  RecFilter(std::string n, std::string s) : quill::Filter(std::move(n)), sink(std::move(s)) {}
  bool filter(quill::MacroMetadata const*, uint64_t, std::string_view, std::string_view, std::string_view,
              LogLevel, std::string_view msg, std::string_view) noexcept override
  {
    long id = parse_id(msg);
    bool ok = !deny_all && !deny.count(id);
    { Ev e{"FilterAsk"}; e.s("s", sink).s("f", get_filter_name()).i("id", id).b("ans", ok); }
    return ok;
  }
};

// ------------------------------------------------------------------ globals
static long parse_id(std::string_view msg);
static std::map<std::string, std::shared_ptr<quill::Sink>> g_sinks;
static std::map<std::string, VLogger*> g_loggers;
static std::map<std::string, std::string> g_filesinks;                 // file sink name -> path
static std::map<std::string, std::vector<std::string>> g_logger_files; // logger -> its file sinks
static std::string g_dir = ".";

// ids of the statements found in a file sink's file right now (what a reader of the destination sees)
static std::string file_ids_json(std::string const& path)
{
  std::ifstream f(path, std::ios::binary);
  std::string line, out = "[";
  bool first = true;
  while (std::getline(f, line))
  {
    long id = parse_id(line);
    if (id < 0) continue;
    out += (first ? "" : ",") + std::to_string(id);
    first = false;
  }
  return out + "]";
}
static std::map<std::string, std::unique_ptr<vs::LT>> g_threads;
static vs::LT g_backend;
static quill::ManualBackendWorker* g_mbw = nullptr;
static quill::BackendOptions g_bopts;
static std::deque<quill::MacroMetadata> g_rt_md;
static std::deque<std::string> g_rt_strs;
static long g_argevals = 0;


static int argeval(int id)
{
  ++g_argevals;
  { Ev e{"ArgEval"}; e.i("id", id); }
  return id;
}

// ------------------------------------------------------------------ lock yield points (shadow Spinlock builds only)
static bool g_lock_yields = true;
extern "C" void quill_verif_lock_point(char const* why)
{
  // the backend yields at locks only inside fine-grained operations (pollf/go/until/exitf); whole polls run through
  if (vs::tl_self == &g_backend && !g_backend.fine) return;
  if (vs::tl_self && g_lock_yields) vs::park(why);
}
static std::map<void*, long> g_ptr_ids;
static long ptr_id(void* p)
{
  auto it = g_ptr_ids.find(p);
  if (it != g_ptr_ids.end()) return it->second;
  long k = static_cast<long>(g_ptr_ids.size()) + 1;
  g_ptr_ids[p] = k;
  return k;
}

static bool g_logger_check_parks = false;
static bool g_notify_parks = false;      // `notifypark on`: the backend parks inside the error notifier when it reports dropped messages
static thread_local int tl_imm = 0;     // 1: inside an immediate-flush log call, 2: its internal flush has started
// ------------------------------------------------------------------ hooks
extern "C" void quill_verif_point(int id, void const* p)
{
  vs::LT* lt = vs::tl_self;
  if (!lt) return;
  if (id == 5)
  {
    // the clock was just read by this thread: under the token scheduler the value is the current virtual time
    if (lt != &g_backend) { Ev e{"Ts"}; e.s("t", lt->name).u("now", vs::g_vunits.load()); }
    if (lt->yield_ts) vs::park("ts");
    return;
  }
  if (id == 7)
  {
    if (lt != &g_backend) { Ev e{"Commit"}; e.s("t", lt->name).u("now", vs::g_vunits.load()); }
    // an immediate-flush call: its internal flush_log() starts here (only the inner flush request reaches this hook a second time)
    if (lt != &g_backend && tl_imm == 1) { tl_imm = 2; Ev e{"FlushCall"}; e.s("t", lt->name).s("lg", "-"); }
    return;
  }
  if (id == 10)
  {
    // start of an iteration of the clean-up loop over the registered loggers (registry lock held, see id 9)
    if (lt == &g_backend && g_logger_check_parks)
    {
      std::string why = "LOGGER_ITER:" + static_cast<quill::detail::LoggerBase const*>(p)->logger_name;
      vs::park(why.c_str());
    }
    return;
  }
  if (id == 9)
  {
    // inside LoggerManager::cleanup_invalidated_loggers (registry lock held): parks only when the script asked for it, and
    // the script then runs nothing but lock-free frontend operations (log calls, remove_logger) until the backend resumes
    if (lt == &g_backend && g_logger_check_parks) vs::park("LOGGER_CHECK");
    return;
  }
  if (lt == &g_backend && lt->fine)
  {
    static char const* names[] = {"?", "POP_CTX", "BATCH_ITER", "IDLE", "POPPED", "TS", "RFAIL", "COMMIT", "PROC"};
    std::string why = names[(id >= 0 && id <= 8) ? id : 0];
    if (id == 3) why += std::to_string(reinterpret_cast<uintptr_t>(p));
    if (id == 1)
    {
      // which logical thread's context is about to be read
      for (auto& [n, t] : g_threads)
        if (t->ctx == p) why += ":" + n;
    }
    vs::park(why.c_str());
  }
}

// ------------------------------------------------------------------ helpers
static std::map<std::string, std::string> kv(std::vector<std::string> const& tok, size_t from)
{
  std::map<std::string, std::string> m;
  for (size_t i = from; i < tok.size(); ++i)
  {
    auto p = tok[i].find('=');
    if (p == std::string::npos) m[tok[i]] = "1";
    else m[tok[i].substr(0, p)] = tok[i].substr(p + 1);
  }
  return m;
}
static long geti(std::map<std::string, std::string> const& m, char const* k, long d)
{
  auto it = m.find(k);
  return it == m.end() ? d : std::stol(it->second);
}
static std::string gets(std::map<std::string, std::string> const& m, char const* k, std::string d = "")
{
  auto it = m.find(k);
  return it == m.end() ? d : it->second;
}
static std::set<long> getset(std::map<std::string, std::string> const& m, char const* k)
{
  std::set<long> s;
  auto it = m.find(k);
  if (it == m.end()) return s;
  std::stringstream ss(it->second);
  std::string x;
  while (std::getline(ss, x, ',')) if (!x.empty()) s.insert(std::stol(x));
  return s;
}

static bool g_notify_pending = false;
static void classify_notify(std::string const& msg)
{
  Ev e{"Notify"};
  long n = 0;
  char const* cls = "other";
  auto num_after = [&](char const* key)
  {
    auto p = msg.find(key);
    if (p == std::string::npos) return false;
    n = std::strtol(msg.c_str() + p + strlen(key), nullptr, 10);
    return true;
  };
  if (num_after("Dropped ")) cls = "dropped";
  else if (num_after("Experienced ")) cls = "blocked";
  else if (msg.find("Allocated a new SPSC queue") != std::string::npos) cls = "alloc";
  else if (msg.find("Could not format log statement") != std::string::npos) cls = "format";
  else if (msg.find("Caught unhandled exception") != std::string::npos) cls = "unhandled";
  else if (msg.find("init_backtrace") != std::string::npos) cls = "nobacktrace";
  else if (msg.find("sink-write-throws") != std::string::npos) cls = "sinkwrite";
  else if (msg.find("sink-flush-throws") != std::string::npos) cls = "sinkflush";
  else if (msg.find("bomb-std") != std::string::npos) cls = "bomb";
  e.s("cls", cls).i("n", n).s("text", msg.substr(0, 80));
  if (auto p = msg.find("from thread "); p != std::string::npos) e.s("tid", msg.substr(p + 12));
  else if (auto q = msg.find("on thread "); q != std::string::npos) e.s("tid", msg.substr(q + 10));
  // user code runs here, in the middle of whatever the backend is doing: a yield point when the script asks for it
  if (g_notify_parks && vs::tl_self == &g_backend && std::strcmp(cls, "dropped") == 0) g_notify_pending = true;
}

static quill::detail::ThreadContext* my_ctx() { return quill::detail::LoggerBase::thread_context; }

// queue projection for a thread context (token scheduler => no concurrent access)
static void snap_ctx(Ev& e, quill::detail::ThreadContext* c)
{
  if (!c) return;
  if constexpr (kBounded)
  {
    auto& q = c->get_spsc_queue_union().bounded_spsc_queue;
    e.u("w", q._writer_pos).u("r", q._reader_pos).u("aw", q._atomic_writer_pos.load())
      .u("ar", q._atomic_reader_pos.load()).u("cap", q._capacity).u("batch", q._bytes_per_batch);
  }
  else
  {
    auto& q = c->get_spsc_queue_union().unbounded_spsc_queue;
    e.u("pcap", q._producer->bounded_queue._capacity).u("ccap", q._consumer->bounded_queue._capacity)
      .u("w", q._producer->bounded_queue._writer_pos).u("r", q._consumer->bounded_queue._reader_pos)
      .b("same", q._producer == q._consumer);
  }
  if (c->_transit_event_buffer)
    e.u("ring", c->_transit_event_buffer->size()).u("ringcap", c->_transit_event_buffer->capacity());
  e.b("valid", c->is_valid()).u("fail", c->_failure_counter.load());
}

// ------------------------------------------------------------------ frontend operations (run on logical threads)
template <LogLevel L>
static constexpr quill::MacroMetadata kMd{"h_sys.cpp:1", "op", "m{} {}", nullptr, L, quill::MacroMetadata::Event::Log};

static quill::MacroMetadata const* md_for(int lvl)
{
  switch (static_cast<LogLevel>(lvl))
  {
  case LogLevel::TraceL3: return &kMd<LogLevel::TraceL3>;
  case LogLevel::TraceL2: return &kMd<LogLevel::TraceL2>;
  case LogLevel::TraceL1: return &kMd<LogLevel::TraceL1>;
  case LogLevel::Debug: return &kMd<LogLevel::Debug>;
  case LogLevel::Info: return &kMd<LogLevel::Info>;
  case LogLevel::Notice: return &kMd<LogLevel::Notice>;
  case LogLevel::Warning: return &kMd<LogLevel::Warning>;
  case LogLevel::Error: return &kMd<LogLevel::Error>;
  case LogLevel::Critical: return &kMd<LogLevel::Critical>;
  case LogLevel::Backtrace: return &kMd<LogLevel::Backtrace>;
  case LogLevel::Dynamic: return &kMd<LogLevel::Dynamic>;
  default: return &kMd<LogLevel::Info>;
  }
}

static void op_log(vs::LT* lt, VLogger* lg, std::map<std::string, std::string> a)
{
  int const id = static_cast<int>(geti(a, "id", 0));
  int const lvl = static_cast<int>(geti(a, "lvl", 4));
  size_t const pad = static_cast<size_t>(geti(a, "pad", 0));
  std::string const kind = gets(a, "kind", "direct");
  std::string padstr(pad, 'x');
  if (a.count("padch")) padstr.assign(pad, gets(a, "padch")[0]);
  lt->yield_ts = geti(a, "yts", 0) != 0;
  long const ev0 = g_argevals;
  uint64_t w0 = 0;
  auto* ctx0 = my_ctx();
  (void)ctx0;
  { Ev e{"LogCall"}; e.s("t", lt->name).i("id", id).s("lg", lg->get_logger_name()).i("lvl", lvl).s("kind", kind).u("pad", pad); }
  int ret = -1;   // -1 unknown (macro), 0 false, 1 true, 2 = filtered by logger level
  {
    std::lock_guard<std::mutex> l{g_expm};
    if (kind == "direct" || kind == "dyn" || kind == "macro" || kind == "dynmacro" || kind == "named" || kind == "imm")
      g_expected[id] = "m" + std::to_string(id) + " " + padstr;
    else if (kind == "cstr") g_expected[id] = "m" + std::to_string(id) + " " + padstr + " " + std::to_string(id * 7);
    else if (kind == "bombok") g_expected[id] = "m" + std::to_string(id) + " " + padstr + " bomb";
  }
  bool threw = false;
  std::string what;
  try
  {
    if (kind == "macro")
    {
      // the real LOG_ macros: level check wraps argument evaluation; result is discarded by the macro
      switch (static_cast<LogLevel>(lvl))
      {
      case LogLevel::TraceL3: LOG_TRACE_L3(lg, "m{} {}", argeval(id), padstr); break;
      case LogLevel::TraceL2: LOG_TRACE_L2(lg, "m{} {}", argeval(id), padstr); break;
      case LogLevel::TraceL1: LOG_TRACE_L1(lg, "m{} {}", argeval(id), padstr); break;
      case LogLevel::Debug: LOG_DEBUG(lg, "m{} {}", argeval(id), padstr); break;
      case LogLevel::Info: LOG_INFO(lg, "m{} {}", argeval(id), padstr); break;
      case LogLevel::Notice: LOG_NOTICE(lg, "m{} {}", argeval(id), padstr); break;
      case LogLevel::Warning: LOG_WARNING(lg, "m{} {}", argeval(id), padstr); break;
      case LogLevel::Error: LOG_ERROR(lg, "m{} {}", argeval(id), padstr); break;
      case LogLevel::Critical: LOG_CRITICAL(lg, "m{} {}", argeval(id), padstr); break;
      case LogLevel::Backtrace: LOG_BACKTRACE(lg, "m{} {}", argeval(id), padstr); break;
      default: break;
      }
    }
    else if (kind == "dynmacro")
    {
      LOG_DYNAMIC(lg, static_cast<LogLevel>(lvl), "m{} {}", argeval(id), padstr);
    }
    else if (kind == "direct")
    {
      // same shape as the macro, keeping log_statement's return value
      if (lg->should_log_statement(static_cast<LogLevel>(lvl)))
        ret = lg->template log_statement<false, false>(LogLevel::None, md_for(lvl), argeval(id), padstr) ? 1 : 0;
      else
        ret = 2;
    }
    else if (kind == "imm")
    {
      // QUILL_IMMEDIATE_FLUSH: the log call itself flushes before it returns
      if (lg->should_log_statement(static_cast<LogLevel>(lvl)))
      {
        tl_imm = 1;
        ret = lg->template log_statement<true, false>(LogLevel::None, md_for(lvl), argeval(id), padstr) ? 1 : 0;
      }
      else
        ret = 2;
    }
    else if (kind == "dyn")
    {
      if (lg->should_log_statement(static_cast<LogLevel>(lvl)))
        ret = lg->template log_statement<false, true>(static_cast<LogLevel>(lvl), md_for(static_cast<int>(LogLevel::Dynamic)),
                                                      argeval(id), padstr) ? 1 : 0;
      else
        ret = 2;
    }
    else if (kind == "badfmt")
    {
      // run-time format string whose placeholders do not match the arguments
      static constexpr quill::MacroMetadata md{"h_sys.cpp:2", "op", "m{} {} {:d}", nullptr, LogLevel::Info,
                                               quill::MacroMetadata::Event::Log};
      ret = lg->template log_statement<false, false>(LogLevel::None, &md, id, padstr, std::string{"notanumber"}) ? 1 : 0;
    }
    else if (kind == "bombstd" || kind == "bombint" || kind == "bombok")
    {
      static constexpr quill::MacroMetadata md{"h_sys.cpp:3", "op", "m{} {} {}", nullptr, LogLevel::Info,
                                               quill::MacroMetadata::Event::Log};
      Bomb b{kind == "bombstd" ? 1 : (kind == "bombint" ? 2 : 0), id};
      ret = lg->template log_statement<false, false>(LogLevel::None, &md, id, padstr, b) ? 1 : 0;
    }
    else if (kind == "cstr")
    {
      // a C-string argument goes through the per-thread size cache (strlen computed once, reused by the encoder)
      static constexpr quill::MacroMetadata md{"h_sys.cpp:5", "op", "m{} {} {}", nullptr, LogLevel::Info,
                                               quill::MacroMetadata::Event::Log};
      char const* cs = padstr.c_str();
      if (lg->should_log_statement(LogLevel::Info))
        ret = lg->template log_statement<false, false>(LogLevel::None, &md, argeval(id), cs, id * 7) ? 1 : 0;
      else
        ret = 2;
    }
    else if (kind == "namedbomb")
    {
      static constexpr quill::MacroMetadata md{"h_sys.cpp:6", "op", "m{id} {pad} {b}", nullptr, LogLevel::Info,
                                               quill::MacroMetadata::Event::Log};
      Bomb b{2, id};
      ret = lg->template log_statement<false, false>(LogLevel::None, &md, id, padstr, b) ? 1 : 0;
    }
    else if (kind == "named")
    {
      static constexpr quill::MacroMetadata md{"h_sys.cpp:4", "op", "m{id} {pad}", nullptr, LogLevel::Info,
                                               quill::MacroMetadata::Event::Log};
      ret = lg->template log_statement<false, false>(LogLevel::None, &md, id, padstr) ? 1 : 0;
    }
  }
  catch (std::exception const& e) { threw = true; what = e.what(); }
  lt->yield_ts = false;
  lt->ctx = my_ctx();
  {
    Ev e{"LogRet"};
    e.s("t", lt->name).i("id", id).i("ret", ret).i("argevals", g_argevals - ev0).b("threw", threw);
    if (threw) e.s("what", what.substr(0, 60));
    (void)w0;
  }
  bool const imm_flushed = (tl_imm == 2);
  tl_imm = 0;
  if (kind == "imm" && ret == 1 && !threw && imm_flushed)
  {
    // the promise of an immediate-flush call, in the contract's vocabulary: a flush_log() that started right after the commit
    // (FlushCall emitted at that hook) and returned when the call returned - everything this thread logged before, and this
    // statement, is written and flushed
    { Ev e{"FlushRet"}; e.s("t", lt->name).s("lg", lg->get_logger_name()); }
    for (auto const& [fs, path] : g_filesinks) { Ev e{"FileRead"}; e.s("t", lt->name).s("s", fs).raw("ids", file_ids_json(path)); }
  }
}

// ------------------------------------------------------------------ script interpreter (driver thread)
static vs::LT* thread_of(std::string const& n)
{
  auto it = g_threads.find(n);
  if (it == g_threads.end()) vs::die("unknown thread");
  return it->second.get();
}
static VLogger* logger_of(std::string const& n)
{
  auto it = g_loggers.find(n);
  if (it == g_loggers.end()) vs::die("unknown logger");
  return it->second;
}

static void report_state(vs::LT* lt, vs::LT::St st)
{
  Ev e{"Sched"};
  e.s("t", lt->name).s("st", st == vs::LT::IDLE ? "idle" : st == vs::LT::PARKED ? "parked" : "other");
  if (st == vs::LT::PARKED) e.s("why", lt->why);
}

static void backend_op(std::string const& op)
{
  if (op != "go" && op.rfind("until:", 0) != 0)
  {
    // a fine-grained poll left parked part-way is completed before a new backend operation starts
    while (g_backend.st == vs::LT::PARKED) { g_backend.fine = false; vs::drive(&g_backend); }
  }
  if (op == "poll" || op == "pollf" || op == "pollg")
  {
    g_backend.fine = (op != "poll");
    g_logger_check_parks = (op == "pollg");
    auto st = vs::drive(&g_backend, [] {
      { Ev e{"PollBegin"}; }
      g_mbw->poll_one();
      { Ev e{"PollEnd"}; }
    });
    report_state(&g_backend, st);
  }
  else if (op == "drain")
  {
    // poll until every queue and ring is empty, then one more poll so the idle branch runs
    g_backend.fine = false;
    auto st = vs::drive(&g_backend, [] {
      int guard = 0;
      while (!g_mbw->_backend_worker->_check_frontend_queues_and_cached_transit_events_empty() && ++guard < 3000)
        g_mbw->poll_one();
      g_mbw->poll_one();
      if (guard >= 3000) { Ev e{"DrainStuck"}; }
    });
    (void)st;
  }
  else if (op == "go")
  {
    auto st = vs::drive(&g_backend);
    report_state(&g_backend, st);
  }
  else if (op.rfind("until:", 0) == 0)
  {
    // resume the backend until it parks at the named yield point (or its operation ends)
    std::string want = op.substr(6);
    int guard = 0;
    while (g_backend.st == vs::LT::PARKED && g_backend.why != want && ++guard < 200) vs::drive(&g_backend);
    report_state(&g_backend, g_backend.st);
  }
  else if (op == "exit" || op == "exitf")
  {
    g_backend.fine = (op == "exitf");
    auto st = vs::drive(&g_backend, [] {
      { Ev e{"ExitBegin"}; }
      try { g_mbw->_backend_worker->_exit(); }
      catch (std::exception const& ex) { Ev e{"ExitThrew"}; e.s("what", ex.what()); }
      catch (...) { Ev e{"ExitThrew"}; e.s("what", "non-std"); }
      { Ev e{"ExitEnd"}; }
    });
    report_state(&g_backend, st);
  }
  else vs::die("bad backend op");
}

static LogLevel lvl_of(long v) { return static_cast<LogLevel>(v); }

static int run_script(std::istream& in)
{
  std::string line;
  bool backend_started = false;
  auto ensure_backend = [&] {
    if (backend_started) return;
    backend_started = true;
    g_backend.name = "B";
    g_backend.th = std::thread([] { vs::worker_main(&g_backend); });
    g_bopts.error_notifier = [](std::string const& m)
    {
      classify_notify(m);
      if (g_notify_pending) { g_notify_pending = false; vs::park("NOTIFY"); }
    };
    g_bopts.check_backend_singleton_instance = false;
    vs::drive(&g_backend, [] {
      g_mbw = quill::Backend::acquire_manual_backend_worker();
      g_mbw->init(g_bopts);
    });
  };

  while (std::getline(in, line))
  {
    if (line.empty() || line[0] == '#') continue;
    std::vector<std::string> tok;
    { std::stringstream ss(line); std::string t; while (ss >> t) tok.push_back(t); }
    if (tok.empty()) continue;
    std::string const& c = tok[0];

    if (c == "cfg")
    {
      auto a = kv(tok, 1);
      g_bopts.transit_events_soft_limit = static_cast<size_t>(geti(a, "soft", 4096));
      g_bopts.transit_events_hard_limit = static_cast<size_t>(geti(a, "hard", 32768));
      g_bopts.transit_event_buffer_initial_capacity = static_cast<uint32_t>(geti(a, "ring", 128));
      g_bopts.log_timestamp_ordering_grace_period = std::chrono::microseconds{geti(a, "grace", 0)};
      g_bopts.sink_min_flush_interval = std::chrono::milliseconds{geti(a, "flushint", 0)};
      g_bopts.wait_for_queues_to_empty_before_exit = geti(a, "waitexit", 1) != 0;
      if (geti(a, "noprintcheck", 0)) g_bopts.check_printable_char = {};
    }
    else if (c == "sink")
    {
      auto a = kv(tok, 2);
      std::optional<quill::PatternFormatterOptions> ov;
      if (geti(a, "ov", 0)) ov = quill::PatternFormatterOptions{"OV %(message)"};
      if (a.count("pattern"))
      {
        std::string p = gets(a, "pattern");
        for (auto& ch : p) if (ch == '~') ch = ' ';
        ov = quill::PatternFormatterOptions{p};
      }
      auto s = VFrontend::create_or_get_sink<RecSink>(tok[1], tok[1], ov);
      auto* rs = static_cast<RecSink*>(s.get());
      rs->throw_write = getset(a, "tw");
      rs->throw_flush = getset(a, "tf");
      rs->throw_kind = static_cast<int>(geti(a, "tk", 1));
      rs->full_text = geti(a, "full", 0) != 0;
      if (a.count("lvl")) rs->set_log_level_filter(lvl_of(geti(a, "lvl", 0)));
      if (!geti(a, "nohold", 0)) g_sinks[tok[1]] = s;
      else { g_sinks[tok[1]] = s; }
      Ev e{"SinkCreated"};
      e.s("s", tok[1]).b("same", s.get() == g_sinks[tok[1]].get()).i("lvl", geti(a, "lvl", 0)).s("tw", gets(a, "tw")).s("tf", gets(a, "tf"))
        .b("ov", geti(a, "ov", 0) != 0);
    }
    else if (c == "filesink")
    {
      // a real quill::FileSink (optionally with a FileEventNotifier::before_write callback); its file is read right after
      // every flush_log() return, while the sink is open
      auto a = kv(tok, 2);
      std::string path = g_dir + "/" + tok[1] + ".log";
      quill::FileSinkConfig fc;
      fc.set_open_mode('w');
      quill::FileEventNotifier fen;
      if (geti(a, "bw", 0)) fen.before_write = [](std::string_view m) { return std::string{m}; };
      auto sp = VFrontend::create_or_get_sink<quill::FileSink>(path, fc, fen);
      g_sinks[tok[1]] = sp;
      g_filesinks[tok[1]] = path;
      Ev e{"FileSinkCreated"};
      e.s("s", tok[1]).b("bw", geti(a, "bw", 0) != 0);
    }
    else if (c == "getsink")
    {
      // look a sink up by name through the public API; compare with the object the harness holds (if it still holds one)
      bool found = false, threw = false, same = false;
      try
      {
        auto sp = VFrontend::get_sink(tok[1]);
        found = sp != nullptr;
        same = found && g_sinks.count(tok[1]) && g_sinks[tok[1]].get() == sp.get();
      }
      catch (std::exception const&) { threw = true; }
      Ev e{"SinkGet"};
      e.s("s", tok[1]).b("found", found).b("threw", threw).b("same", same).b("held", g_sinks.count(tok[1]) != 0);
    }
    else if (c == "dropsink")
    {
      // the user gives up its own reference to the sink
      { Ev e{"SinkRefDropped"}; e.s("s", tok[1]); }
      g_sinks.erase(tok[1]);
    }
    else if (c == "logger")
    {
      auto a = kv(tok, 2);
      std::vector<std::shared_ptr<quill::Sink>> sinks;
      {
        std::stringstream ss(gets(a, "sinks"));
        std::string x;
        while (std::getline(ss, x, ','))
        {
          if (!g_sinks.count(x)) vs::die("logger: unknown sink");
          sinks.push_back(g_sinks[x]);
          if (g_filesinks.count(x)) g_logger_files[tok[1]].push_back(x);
        }
      }
      std::string pattern = gets(a, "pattern", "%(message)");
      for (auto& ch : pattern) if (ch == '~') ch = ' ';
      std::string clk = gets(a, "clock", "system");
      quill::PatternFormatterOptions pfo{pattern};
      pfo.add_metadata_to_multi_line_logs = geti(a, "multiline", 1) != 0;
      size_t before = VFrontend::get_number_of_loggers();
      VLogger* lg = VFrontend::create_or_get_logger(
        tok[1], std::move(sinks), pfo,
        clk == "tsc" ? quill::ClockSourceType::Tsc : (clk == "user" ? quill::ClockSourceType::User : quill::ClockSourceType::System),
        clk == "user" ? &g_user_clock : nullptr);
      if (a.count("lvl")) lg->set_log_level(lvl_of(geti(a, "lvl", 4)));
      bool fresh = VFrontend::get_number_of_loggers() == before + 1;
      bool same = g_loggers.count(tok[1]) && g_loggers[tok[1]] == lg;
      g_loggers[tok[1]] = lg;
      Ev e{"LoggerCreated"};
      e.s("lg", tok[1]).b("fresh", fresh).b("same", same).s("sinks", gets(a, "sinks")).i("nsinks", static_cast<long long>(lg->get_sinks().size()))
        .i("lvl", static_cast<int>(lg->get_log_level())).s("clock", clk);
    }
    else if (c == "getlogger")
    {
      VLogger* lg = VFrontend::get_logger(tok[1]);
      Ev e{"GetLogger"};
      e.s("lg", tok[1]).b("found", lg != nullptr).b("same", lg && g_loggers.count(tok[1]) && g_loggers[tok[1]] == lg);
    }
    else if (c == "remove")
    {
      VFrontend::remove_logger(logger_of(tok[1]));
      Ev e{"RemoveLogger"};
      e.s("lg", tok[1]);
    }
    else if (c == "setlevel")
    {
      logger_of(tok[1])->set_log_level(lvl_of(std::stol(tok[2])));
      Ev e{"SetLoggerLevel"};
      e.s("lg", tok[1]).i("lvl", std::stol(tok[2]));
    }
    else if (c == "sinklevel")
    {
      g_sinks.at(tok[1])->set_log_level_filter(lvl_of(std::stol(tok[2])));
      Ev e{"SetSinkLevel"};
      e.s("s", tok[1]).i("lvl", std::stol(tok[2]));
    }
    else if (c == "addfilter")
    {
      auto a = kv(tok, 3);
      auto f = std::make_unique<RecFilter>(tok[2], tok[1]);
      f->deny = getset(a, "deny");
      f->deny_all = geti(a, "all", 0) != 0;
      std::string denys = gets(a, "deny");
      bool threw = false;
      try { g_sinks.at(tok[1])->add_filter(std::move(f)); }
      catch (std::exception const&) { threw = true; }
      Ev e{"AddFilter"};
      e.s("s", tok[1]).s("f", tok[2]).s("deny", denys).b("all", geti(a, "all", 0) != 0).b("threw", threw);
    }
    else if (c == "notifypark")
    {
      g_notify_parks = tok.size() > 1 && tok[1] == "on";
    }
    else if (c == "tick")
    {
      vs::g_vunits.fetch_add(static_cast<uint64_t>(std::stol(tok[1])));
      Ev e{"Tick"};
      e.i("n", std::stol(tok[1])).u("now", vs::g_vunits.load());
    }
    else if (c == "userclock")
    {
      g_user_clock.v.store(vs::kBaseNs + static_cast<uint64_t>(std::stol(tok[1])) * vs::kUnitNs);
    }
    else if (c == "start")
    {
      ensure_backend();
      auto lt = std::make_unique<vs::LT>();
      lt->name = tok[1];
      vs::LT* p = lt.get();
      g_threads[tok[1]] = std::move(lt);
      p->th = std::thread([p] { vs::worker_main(p); });
      Ev e{"ThreadStart"};
      e.s("t", tok[1]);
    }
    else if (c == "join")
    {
      vs::LT* lt = thread_of(tok[1]);
      if (lt->st != vs::LT::IDLE) { Ev e{"Skipped"}; e.s("what", "join").s("t", tok[1]); continue; }
      vs::quit_and_join(lt);
      Ev e{"ThreadExit"};
      e.s("t", tok[1]);
    }
    else if (c == "B")
    {
      ensure_backend();
      backend_op(tok[1]);
    }
    else if (c == "T")
    {
      ensure_backend();
      vs::LT* lt = thread_of(tok[1]);
      std::string const& op = tok[2];
      vs::LT::St st;
      if (op == "go")
      {
        if (lt->st != vs::LT::PARKED) continue;
        st = vs::drive(lt);
      }
      else
      {
        if (lt->st == vs::LT::DONE) { Ev e{"Skipped"}; e.s("what", op).s("t", tok[1]); continue; }
        if (lt->st != vs::LT::IDLE)
        {
          // the thread is still inside an earlier (blocked) call: resume it instead of starting a new operation
          { Ev e{"Skipped"}; e.s("what", op).s("t", tok[1]); }
          st = vs::drive(lt);
          report_state(lt, st);
          continue;
        }
        if (op == "log")
        {
          VLogger* lg = logger_of(tok[3]);
          auto a = kv(tok, 4);
          st = vs::drive(lt, [lt, lg, a] { op_log(lt, lg, a); });
        }
        else if (op == "flush")
        {
          VLogger* lg = logger_of(tok[3]);
          auto a = kv(tok, 4);
          uint32_t sl = static_cast<uint32_t>(geti(a, "sleep", 100));
          st = vs::drive(lt, [lt, lg, sl] {
            { Ev e{"FlushCall"}; e.s("t", lt->name).s("lg", lg->get_logger_name()); }
            lg->flush_log(sl);
            lt->ctx = my_ctx();
            { Ev e{"FlushRet"}; e.s("t", lt->name).s("lg", lg->get_logger_name()); }
            // what can be read from the destination at this very moment (no yield since flush_log returned)
            for (auto const& [fs, path] : g_filesinks) { Ev e{"FileRead"}; e.s("t", lt->name).s("s", fs).raw("ids", file_ids_json(path)); }
          });
        }
        else if (op == "initbt")
        {
          VLogger* lg = logger_of(tok[3]);
          auto a = kv(tok, 4);
          uint32_t cap = static_cast<uint32_t>(geti(a, "cap", 2));
          int fl = static_cast<int>(geti(a, "fl", static_cast<int>(LogLevel::None)));
          st = vs::drive(lt, [lt, lg, cap, fl] {
            lg->init_backtrace(cap, lvl_of(fl));
            lt->ctx = my_ctx();
            { Ev e{"InitBacktrace"}; e.s("t", lt->name).s("lg", lg->get_logger_name()).u("cap", cap).i("fl", fl); }
          });
        }
        else if (op == "flushbt")
        {
          VLogger* lg = logger_of(tok[3]);
          st = vs::drive(lt, [lt, lg] {
            lg->flush_backtrace();
            lt->ctx = my_ctx();
            { Ev e{"FlushBacktrace"}; e.s("t", lt->name).s("lg", lg->get_logger_name()); }
          });
        }
        else if (op == "removeb")
        {
          VLogger* lg = logger_of(tok[3]);
          std::string name = tok[3];
          st = vs::drive(lt, [lt, lg, name] {
            { Ev e{"RemoveBlockingCall"}; e.s("t", lt->name).s("lg", name); }
            VFrontend::remove_logger_blocking(lg);
            lt->ctx = my_ctx();
            { Ev e{"RemoveBlockingRet"}; e.s("t", lt->name).s("lg", name).u("nloggers", VFrontend::get_number_of_loggers()); }
          });
        }
        else if (op == "create" || op == "get")
        {
          // create_or_get_logger / get_logger from a logical thread (registry access interleaves with other threads)
          std::string name = tok[3];
          auto a = kv(tok, 4);
          std::vector<std::shared_ptr<quill::Sink>> sinks;
          {
            std::stringstream ss(gets(a, "sinks"));
            std::string x;
            while (std::getline(ss, x, ',')) if (g_sinks.count(x)) sinks.push_back(g_sinks[x]);
          }
          bool create = op == "create";
          std::string sinknames = gets(a, "sinks");
          st = vs::drive(lt, [lt, name, sinks, create, sinknames] {
            { Ev e{create ? "CreateCall" : "GetCall"}; e.s("t", lt->name).s("lg", name); }
            VLogger* lg = create ? VFrontend::create_or_get_logger(name, sinks, quill::PatternFormatterOptions{"%(message)"},
                                                                  quill::ClockSourceType::System)
                                 : VFrontend::get_logger(name);
            if (lg && create) lg->set_log_level(LogLevel::TraceL3);
            if (lg) g_loggers[name] = lg;
            Ev e{create ? "CreateRet" : "GetRet"};
            e.s("t", lt->name).s("lg", name).i("ptr", lg ? ptr_id(lg) : 0).u("nloggers", VFrontend::get_number_of_loggers())
              .i("nsinks", lg ? static_cast<long long>(lg->get_sinks().size()) : 0).s("sinks", sinknames);
          });
        }
        else if (op == "prealloc")
        {
          st = vs::drive(lt, [lt] {
            VFrontend::preallocate();
            lt->ctx = my_ctx();
            { Ev e{"Preallocate"}; e.s("t", lt->name); }
          });
        }
        else if (op == "shrink")
        {
          size_t cap = static_cast<size_t>(std::stol(tok[3]));
          st = vs::drive(lt, [lt, cap] {
            size_t before = VFrontend::get_thread_local_queue_capacity();
            VFrontend::shrink_thread_local_queue(cap);
            lt->ctx = my_ctx();
            { Ev e{"Shrink"}; e.s("t", lt->name).u("req", cap).u("before", before).u("after", VFrontend::get_thread_local_queue_capacity()); }
          });
        }
        else if (op == "cap")
        {
          st = vs::drive(lt, [lt] {
            Ev e{"Capacity"};
            e.s("t", lt->name).u("cap", VFrontend::get_thread_local_queue_capacity());
          });
        }
        else { vs::die("bad thread op"); }
      }
      report_state(lt, st);
    }
    else if (c == "q")
    {
      if (tok[1] == "ctx")
      {
        size_t n = 0, inval = 0;
        quill::detail::ThreadContextManager::instance().for_each_thread_context(
          [&](quill::detail::ThreadContext* tc) { ++n; if (!tc->is_valid()) ++inval; });
        size_t live = 0;
        for (auto& [nm, t] : g_threads) if (t->st != vs::LT::DONE && t->ctx) ++live;
        Ev e{"CtxCount"};
        e.u("n", n).u("invalid", inval).u("live", live);
      }
      else if (tok[1] == "loggers")
      {
        Ev e{"LoggerCount"};
        e.u("n", VFrontend::get_number_of_loggers());
      }
      else if (tok[1] == "snap")
      {
        // every context the registry still holds (also those of exited threads, until the backend reclaims them)
        std::vector<quill::detail::ThreadContext*> live;
        quill::detail::ThreadContextManager::instance().for_each_thread_context(
          [&](quill::detail::ThreadContext* tc) { live.push_back(tc); });
        for (auto* tc : live)
        {
          std::string nm = "?";
          for (auto& [n, t] : g_threads) if (t->ctx == tc) nm = n;
          Ev e{"Snap"};
          e.s("t", nm);
          snap_ctx(e, tc);
        }
      }
    }
    else if (c == "mark")
    {
      Ev e{"Mark"};
      e.s("what", tok.size() > 1 ? tok[1] : "");
    }
    else if (c == "end") break;
    else vs::die("bad script line");
  }
  return 0;
}

int main(int argc, char** argv)
{
  if (argc < 3) { fprintf(stderr, "usage: h_sys <script> <trace-out>\n"); return 2; }
  // remember a thread's context as soon as it has one, also when it parks in the middle of its first call
  vs::g_on_park = [](vs::LT* lt) { if (lt != &g_backend && my_ctx()) lt->ctx = my_ctx(); };
  vs::g_outpath = argv[2];
  {
    std::string o = argv[2];
    auto p = o.find_last_of('/');
    g_dir = p == std::string::npos ? "." : o.substr(0, p);
  }
  std::set_terminate([] { vs::die("terminate"); });
  {
    Ev e{"Config"};
    e.s("qtype", QUILL_STRINGIFY(VQ_TYPE)).u("qcap", VQ_CAP).u("qmax", VQ_MAX).b("bounded", kBounded)
#if defined(QUILL_VERIF)
      .b("hooks", true);
#else
      .b("hooks", false);
#endif
  }
  std::ifstream in(argv[1]);
  if (!in) { fprintf(stderr, "cannot open script\n"); return 2; }
  run_script(in);
  { Ev e{"End"}; }
  vs::dump_events();
  // managers are process singletons and threads may still be parked: leave without running destructors
  fflush(nullptr);
  _exit(0);
}
