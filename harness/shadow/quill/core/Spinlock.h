// SHADOW of quill/core/Spinlock.h used only by the "registry concurrency" variant of harness/h_sys (include path placed
// before /repo/include): same interface, but acquiring and releasing a lock are yield points of the token scheduler.
// A holder never parks while holding the lock (parks are before lock() acquires and after unlock() releases), so under
// the token scheduler the lock is always free when a thread gets to acquire it and the (non-logical) driver thread can
// never find it taken. What the real Spinlock guarantees (mutual exclusion + happens-before) is kept; what is added is
// that other threads may run between two critical sections of one call - which is exactly what a real scheduler may do.
#pragma once
#include "quill/core/Attributes.h"
#include <cstdint>
#include <cstdlib>

extern "C" void quill_verif_lock_point(char const* why);

QUILL_BEGIN_NAMESPACE
namespace detail
{
class Spinlock
{
public:
  Spinlock() = default;
  Spinlock(Spinlock const&) = delete;
  Spinlock& operator=(Spinlock const&) = delete;
  void lock() noexcept
  {
    quill_verif_lock_point("lock");
    if (_locked) std::abort();   // cannot happen under the token scheduler (see above)
    _locked = true;
  }
  void unlock() noexcept
  {
    _locked = false;
    quill_verif_lock_point("unlock");
  }

private:
  bool _locked{false};
};

class LockGuard
{
public:
  explicit LockGuard(Spinlock& s) : _spinlock(s) { _spinlock.lock(); }
  ~LockGuard() { _spinlock.unlock(); }
  LockGuard(LockGuard const&) = delete;
  LockGuard& operator=(LockGuard const&) = delete;

private:
  Spinlock& _spinlock;
};
} // namespace detail
QUILL_END_NAMESPACE
