// h_life: C07 harness. Every scenario (a program exported from the TLC model spec/Life.tla plus run attributes)
// runs in a FORKED CHILD with the REAL quill backend thread and a real FileSink in a scratch directory. The child
// records the observable events (DESIGN Appendix A: Start, LogReturn, StopCall, StopReturn + file content, the
// request that ends the process) into a shared-memory log whose slots are handed out by one seq_cst fetch_add, so
// "the log call returned before stop was requested" is a happens-before fact of the run, not a timing guess.
// The parent records the wait status, reads the file after the child has ended and prints one JSON object per
// scenario. Nothing here judges: spec/TraceLife.tla does.
//
//   h_life <scenario-file> <scratch-dir> <parallel>
// scenario line:  <id> <clock:sys|tsc> <gate:0|1|2> <sync:turn|free> <soft:0|1> <sleep_us:-1|n> <sh:0|1> <named:0|1>
//                 <wait:0|1 = BackendOptions::wait_for_queues_to_empty_before_exit>
//                 <q:0|1|2|3 = queue exercise: 1 padded statements (> half a queue node each, so the producer moves
//                  to a new, larger node) with transit_events_hard_limit 1; 2 the thread shrinks its queue before
//                  each statement but its first, hard limit 1; 3 as 2 with default limits, after a pause that lets
//                  the backend drain the old node; 5 no queue exercise but a timestamp-ordering grace period of 100 ms>
//                 step...
//   named: 0 no logger named in SignalHandlerOptions, 1 the logger that exists, 2 a name no logger has (the handler
//          must fall back to the first valid logger)
// All threads use FrontendOptions with initial_queue_capacity 4096 (so that growth / shrink are within reach).
//   steps: S<t> start  L<t> log  P<t> stop  F<w> worker w returns and is joined  X<t>:<code> exit(code)  R return
//          from main   G<t>:<signum>:<flavour>  signal at thread t; flavour r raise(), f real fault / abort(),
//          k<u> pthread_kill from thread u while t is parked between two statements, p process-directed kill that
//          main blocks, sends and unblocks
//   gate: 0 none, 1 a second sink that holds the backend inside write_log until stop/exit is requested (resp. a
//          moment after the signal was raised), 2 a second sink that sleeps 150us per statement
#include "quill/Backend.h"
#include "quill/Frontend.h"
#include "quill/LogMacros.h"
#include "quill/Logger.h"
#include "quill/sinks/FileSink.h"
#include "quill/sinks/Sink.h"

#include <atomic>
#include <chrono>
#include <csignal>
#include <cstdio>
#include <cstdlib>
#include <cstring>
#include <fcntl.h>
#include <fstream>
#include <pthread.h>
#include <sstream>
#include <string>
#include <sys/mman.h>
#include <sys/resource.h>
#include <sys/stat.h>
#include <sys/wait.h>
#include <thread>
#include <unistd.h>
#include <vector>

namespace
{
constexpr int MAXT = 3;
constexpr int MAXSTEP = 64;
constexpr int MAXEV = 256;
constexpr int TEXTSZ = 256 * 1024;
constexpr size_t PADLEN = 2200; // statement record > half of the 4096-byte queue node

struct SmallQueueOptions
{
#if defined(VL_BOUNDED)
  // second build of the harness: a bounded blocking queue (stop/exit must also drain what the backend has already decoded)
  static constexpr quill::QueueType queue_type = quill::QueueType::BoundedBlocking;
  static constexpr size_t initial_queue_capacity = 8192;
#else
  static constexpr quill::QueueType queue_type = quill::QueueType::UnboundedBlocking;
  static constexpr size_t initial_queue_capacity = 4096;
#endif
  static constexpr uint32_t blocking_queue_retry_interval_ns = 800;
  static constexpr size_t unbounded_queue_max_capacity = 2ull * 1024u * 1024u * 1024u;
  static constexpr quill::HugePagesPolicy huge_pages_policy = quill::HugePagesPolicy::Never;
};
using FrontendT = quill::FrontendImpl<SmallQueueOptions>;
using LoggerT = quill::LoggerImpl<SmallQueueOptions>;

enum EvKind : int
{
  EV_NONE = 0,
  EV_STARTCALL,
  EV_STARTRET,
  EV_LOGCALL,
  EV_LOGRET,
  EV_STOPCALL,
  EV_STOPRET,
  EV_ENDCALL,
  EV_FIN
};

struct Ev
{
  std::atomic<int> kind; // written last
  int t, a, b, c;
  int off, len;
};

struct Shm
{
  std::atomic<uint32_t> nev;
  std::atomic<uint32_t> ntext;
  std::atomic<uint32_t> done[MAXSTEP];
  std::atomic<uint32_t> quit[MAXT];
  std::atomic<uint32_t> parked[MAXT];
  std::atomic<uint32_t> ending; // 0 no, 1 signal raised, 2 exit/return requested
  std::atomic<uint32_t> setup_failed;
  Ev ev[MAXEV];
  char text[TEXTSZ];
};

struct Step
{
  char op;     // S L P F X R G
  int t;       // acting thread (target for G, worker for F)
  int a;       // code / signum
  char flavour; // r f k p
  int u;       // sender for k
  int exec;    // executing thread
};

struct Scenario
{
  std::string id;
  bool tsc{false};
  int gate{0};
  bool free_mode{false};
  bool soft1{false};
  long sleep_us{-1};
  bool sh{true};
  int named{0};
  bool wait{true};
  int q{0};
  std::vector<Step> steps;
};

// ---------------------------------------------------------------- child state
Shm* g_shm = nullptr;
Scenario const* g_scn = nullptr;
LoggerT* g_logger = nullptr;
std::string g_pad;
std::atomic<bool> g_gate_open{true};
std::atomic<bool> g_starting{false}; // Backend::start in progress: the gate is already closed, is_running() not yet true
int g_nlog[MAXT] = {0, 0, 0};
std::thread* g_threads[MAXT] = {nullptr, nullptr, nullptr};
int g_block_sig = 0; // signal the non-target threads keep blocked (flavour p)

inline void nap(unsigned us) { ::usleep(us); }

inline void wait_for(std::atomic<uint32_t>& a)
{
  for (int i = 0; i < 400; ++i)
  {
    if (a.load()) return;
    __builtin_ia32_pause();
  }
  while (!a.load()) nap(20);
}

int emit(int kind, int t, int a = 0, int b = 0, int c = 0, char const* txt = nullptr, int len = 0)
{
  uint32_t const i = g_shm->nev.fetch_add(1); // seq_cst: the total order of the observable events
  if (i >= MAXEV) return -1;
  Ev& e = g_shm->ev[i];
  e.t = t;
  e.a = a;
  e.b = b;
  e.c = c;
  e.off = 0;
  e.len = 0;
  if (txt && len > 0)
  {
    uint32_t off = g_shm->ntext.fetch_add(static_cast<uint32_t>(len));
    e.len = -1; // does not fit: reported as such, never as an empty file
    if (off + len <= TEXTSZ)
    {
      std::memcpy(g_shm->text + off, txt, len);
      e.off = static_cast<int>(off);
      e.len = len;
    }
  }
  e.kind.store(kind);
  return static_cast<int>(i);
}

class GateSink final : public quill::Sink
{
public:
  explicit GateSink(int mode) : _mode(mode) {}
  void write_log(quill::MacroMetadata const*, uint64_t, std::string_view, std::string_view, std::string const&,
                 std::string_view, quill::LogLevel, std::string_view, std::string_view,
                 std::vector<std::pair<std::string, std::string>> const*, std::string_view, std::string_view) override
  {
    if (_mode == 1)
    {
      while (!g_gate_open.load()) nap(20);
    }
    else if (_mode == 2)
    {
      nap(150);
    }
  }
  void flush_sink() override {}

private:
  int _mode;
};

// opens the hold gate once the stop request is visible (public API only), resp. shortly after a signal was raised
void gatekeeper()
{
  sigset_t all;
  sigfillset(&all);
  pthread_sigmask(SIG_SETMASK, &all, nullptr);
  auto closed_since = std::chrono::steady_clock::now();
  bool was_open = true;
  for (;;)
  {
    bool const open = g_gate_open.load();
    if (!open && !g_starting.load())
    {
      if (was_open) closed_since = std::chrono::steady_clock::now();
      uint32_t const ending = g_shm->ending.load();
      bool do_open = false;
      if (ending == 1)
      {
        nap(300);
        do_open = true;
      }
      else if (!quill::Backend::is_running())
      {
        do_open = true;
      }
      else if (std::chrono::steady_clock::now() - closed_since > std::chrono::milliseconds{60})
      {
        do_open = true; // safety net: never hold the backend for ever
      }
      if (do_open) g_gate_open.store(true);
    }
    was_open = open;
    nap(25);
  }
}

std::string read_file(char const* path)
{
  std::string s;
  int fd = ::open(path, O_RDONLY);
  if (fd < 0) return s;
  char buf[4096];
  ssize_t n;
  while ((n = ::read(fd, buf, sizeof(buf))) > 0) s.append(buf, static_cast<size_t>(n));
  ::close(fd);
  return s;
}

void do_start(int t)
{
  emit(EV_STARTCALL, t);
  quill::BackendOptions bo;
  if (g_scn->sleep_us >= 0) bo.sleep_duration = std::chrono::microseconds{g_scn->sleep_us};
  if (g_scn->soft1) bo.transit_events_soft_limit = 1;
  if (g_scn->q == 1 || g_scn->q == 2)
  {
    bo.transit_events_soft_limit = 1;
    bo.transit_events_hard_limit = 1;
  }
  if (g_scn->q == 5) bo.log_timestamp_ordering_grace_period = std::chrono::milliseconds{100};
  bo.wait_for_queues_to_empty_before_exit = g_scn->wait;
  bo.error_notifier = [](std::string const&) {};
  // the hold gate is closed BEFORE the backend starts, so that the very first statement it processes holds it
  bool const hold = g_scn->gate == 1 && !quill::Backend::is_running();
  if (hold)
  {
    g_starting.store(true);
    g_gate_open.store(false);
  }
  if (g_scn->sh)
  {
    quill::SignalHandlerOptions so;
    so.timeout_seconds = 5;
    if (g_scn->named == 1) so.logger = "L";
    if (g_scn->named == 2) so.logger = "no_such_logger";
    quill::Backend::start<SmallQueueOptions>(bo, so);
  }
  else
  {
    quill::Backend::start(bo);
  }
  bool const running = quill::Backend::is_running();
  if (hold)
  {
    if (!running) g_gate_open.store(true);
    g_starting.store(false);
  }
  emit(EV_STARTRET, t, running ? 1 : 0);
}

void do_stop(int t)
{
  emit(EV_STOPCALL, t);
  quill::Backend::stop();
  bool const running = quill::Backend::is_running();
  std::string const content = read_file("log.txt");
  emit(EV_STOPRET, t, running ? 1 : 0, 0, 0, content.data(), static_cast<int>(content.size()));
}

void do_log(int t)
{
  int const n = ++g_nlog[t];
#if !defined(VL_BOUNDED)
  if (n > 1 && g_scn->q >= 2 && g_scn->q <= 3)
  {
    if (g_scn->q == 3) nap(400 + static_cast<unsigned>(g_scn->sleep_us > 0 ? g_scn->sleep_us : 0));
    size_t const cap = FrontendT::get_thread_local_queue_capacity();
    if (cap >= 2048) FrontendT::shrink_thread_local_queue(cap / 2);
  }
#endif
  emit(EV_LOGCALL, t, n);
  LOG_INFO(g_logger, "s {} {}{}", t, n, std::string_view{g_pad});
  emit(EV_LOGRET, t, n);
}

[[noreturn]] void park_forever()
{
  for (int i = 0; i < 400000; ++i) nap(50); // 20 s
  ::_exit(98);
}

pthread_t g_main_pthread;
// the handled signal neither ended the process nor will it: leave with a status nobody asked for
[[noreturn]] void still_alive(unsigned wait_ms)
{
  for (unsigned i = 0; i < wait_ms; ++i) nap(1000);
  ::_exit(42);
}

volatile int g_zero = 0;
volatile int* volatile g_nullp = nullptr;

void do_signal(Step const& s, int me)
{
  int const sig = s.a;
  if (s.flavour == 'k')
  {
    // sender `me` hits the parked target thread between two of its statements
    wait_for(g_shm->parked[s.t]);
    emit(EV_ENDCALL, s.t, 3, sig, 'k');
    g_shm->ending.store(1);
    pthread_t const target = (s.t == 0) ? g_main_pthread : g_threads[s.t]->native_handle();
    pthread_kill(target, sig);
    still_alive(3000);
  }
  emit(EV_ENDCALL, s.t, 3, sig, s.flavour);
  if (s.flavour == 'p')
  {
    sigset_t one, old;
    sigemptyset(&one);
    sigaddset(&one, sig);
    pthread_sigmask(SIG_BLOCK, &one, &old);
    g_shm->ending.store(1);
    ::kill(::getpid(), sig);
    nap(1500);
    pthread_sigmask(SIG_SETMASK, &old, nullptr);
    still_alive(100);
  }
  g_shm->ending.store(1);
  if (s.flavour == 'f')
  {
    if (sig == SIGSEGV)
    {
      *g_nullp = 1; // a real null store
    }
    else if (sig == SIGFPE)
    {
      volatile int r = 1 / g_zero; // a real integer division by zero
      (void)r;
    }
    else if (sig == SIGILL)
    {
      __asm__ volatile("ud2");
    }
    else if (sig == SIGABRT)
    {
      std::abort();
    }
  }
  std::raise(sig);
  // a handled fatal signal does not come back here; SIGINT/SIGTERM exit inside the handler
  still_alive(100);
}

bool is_lifecycle(Step const& s) { return s.op != 'L'; }

void wait_turn(int i)
{
  Scenario const& sc = *g_scn;
  Step const& s = sc.steps[i];
  if (!sc.free_mode)
  {
    if (i > 0) wait_for(g_shm->done[i - 1]);
    return;
  }
  // free mode: log statements run unsynchronised; the rest keeps the order the program needs to be well defined
  if (s.op == 'L') return;
  bool const barrier = (s.op == 'X' || s.op == 'R' || (s.op == 'G' && (s.a == SIGINT || s.a == SIGTERM)));
  for (int j = 0; j < i; ++j)
  {
    Step const& p = sc.steps[j];
    bool need = barrier || is_lifecycle(p);
    if (s.op == 'F' && p.t == s.t) need = true;
    if (s.op == 'G' && p.t == s.t) need = true;
    if (need) wait_for(g_shm->done[j]);
  }
}

// returns true when main shall return from main()
bool run_thread(int me)
{
  Scenario const& sc = *g_scn;
  for (int i = 0; i < static_cast<int>(sc.steps.size()); ++i)
  {
    Step const& s = sc.steps[i];
    if (s.exec != me) continue;
    wait_turn(i);
    switch (s.op)
    {
    case 'S':
      do_start(me);
      break;
    case 'L':
      do_log(me);
      break;
    case 'P':
      do_stop(me);
      break;
    case 'F':
      g_shm->quit[s.t].store(1);
      g_threads[s.t]->join();
      delete g_threads[s.t];
      g_threads[s.t] = nullptr;
      emit(EV_FIN, s.t);
      break;
    case 'X':
      emit(EV_ENDCALL, me, 1, s.a);
      g_shm->ending.store(2);
      std::exit(s.a);
    case 'R':
      emit(EV_ENDCALL, me, 2, 0);
      g_shm->ending.store(2);
      return true;
    case 'G':
      do_signal(s, me);
      break;
    default:
      break;
    }
    g_shm->done[i].store(1);
  }
  g_shm->parked[me].store(1);
  if (me == 0) park_forever();
  wait_for(g_shm->quit[me]);
  return false;
}

void worker_body(int me)
{
  if (g_block_sig)
  {
    sigset_t one;
    sigemptyset(&one);
    sigaddset(&one, g_block_sig);
    pthread_sigmask(SIG_BLOCK, &one, nullptr);
  }
  run_thread(me);
}

// the child's program. Returns only for "return from main".
int child_main(Scenario const& sc, Shm* shm, std::string const& dir)
{
  g_shm = shm;
  g_scn = &sc;
  g_main_pthread = pthread_self();
  struct rlimit rl{0, 0};
  setrlimit(RLIMIT_CORE, &rl);
  if (::chdir(dir.c_str()) != 0)
  {
    shm->setup_failed.store(1);
    ::_exit(97);
  }
  if (!std::getenv("H_LIFE_STDERR"))
  {
    int fd = ::open("/dev/null", O_WRONLY);
    if (fd >= 0)
    {
      ::dup2(fd, 2);
      ::close(fd);
    }
  }
  for (Step const& s : sc.steps)
    if (s.op == 'G' && s.flavour == 'p') g_block_sig = s.a;

  std::vector<std::shared_ptr<quill::Sink>> sinks;
  if (sc.q == 1) g_pad = " " + std::string(PADLEN, 'p');
  if (sc.gate) sinks.push_back(FrontendT::create_or_get_sink<GateSink>("gate", sc.gate));
  sinks.push_back(FrontendT::create_or_get_sink<quill::FileSink>(
    "log.txt",
    []()
    {
      quill::FileSinkConfig cfg;
      cfg.set_open_mode('w');
      return cfg;
    }(),
    quill::FileEventNotifier{}));
  g_logger = FrontendT::create_or_get_logger(
    "L", std::move(sinks), quill::PatternFormatterOptions{"%(message)"},
    sc.tsc ? quill::ClockSourceType::Tsc : quill::ClockSourceType::System);

  // helper threads are CREATED with the mask they need (a thread that blocks a signal only once it runs can be hit
  // before it got that far)
  sigset_t all, old;
  sigfillset(&all);
  pthread_sigmask(SIG_SETMASK, &all, &old);
  if (sc.gate == 1) (new std::thread(gatekeeper))->detach();
  pthread_sigmask(SIG_SETMASK, &old, nullptr);
  bool used[MAXT] = {true, false, false};
  for (Step const& s : sc.steps)
  {
    if (s.t >= 0 && s.t < MAXT) used[s.t] = true;
    if (s.exec >= 0 && s.exec < MAXT) used[s.exec] = true;
  }
  if (g_block_sig)
  {
    sigset_t one;
    sigemptyset(&one);
    sigaddset(&one, g_block_sig);
    pthread_sigmask(SIG_BLOCK, &one, &old);
  }
  for (int w = 1; w < MAXT; ++w)
    if (used[w]) g_threads[w] = new std::thread(worker_body, w);
  if (g_block_sig) pthread_sigmask(SIG_SETMASK, &old, nullptr);
  if (run_thread(0)) return 0;
  park_forever();
}

// ---------------------------------------------------------------- parent
bool parse_scenario(std::string const& line, Scenario& sc)
{
  std::istringstream is(line);
  std::string clock, sync, tok;
  int soft, sh, wait;
  if (!(is >> sc.id >> clock >> sc.gate >> sync >> soft >> sc.sleep_us >> sh >> sc.named >> wait >> sc.q)) return false;
  sc.wait = wait != 0;
  sc.tsc = (clock == "tsc");
  sc.free_mode = (sync == "free");
  sc.soft1 = soft != 0;
  sc.sh = sh != 0;
  while (is >> tok)
  {
    Step s{};
    s.op = tok[0];
    s.t = 0;
    s.a = 0;
    s.flavour = 0;
    s.u = -1;
    if (s.op == 'R')
    {
      s.exec = 0;
    }
    else
    {
      s.t = tok[1] - '0';
      s.exec = s.t;
      if (s.op == 'F') s.exec = 0;
      if (s.op == 'X') s.a = std::atoi(tok.c_str() + 3);
      if (s.op == 'G')
      {
        size_t const c2 = tok.find(':', 3);
        s.a = std::atoi(tok.substr(3, c2 - 3).c_str());
        s.flavour = tok[c2 + 1];
        if (s.flavour == 'k')
        {
          s.u = tok[c2 + 2] - '0';
          s.exec = s.u;
        }
      }
    }
    if (s.t < 0 || s.t >= MAXT || s.exec < 0 || s.exec >= MAXT) return false;
    sc.steps.push_back(s);
  }
  return !sc.steps.empty() && sc.steps.size() <= MAXSTEP;
}

void json_str(std::string& out, char const* p, size_t n)
{
  out.push_back('"');
  for (size_t i = 0; i < n; ++i)
  {
    unsigned char c = static_cast<unsigned char>(p[i]);
    if (c == '"' || c == '\\')
    {
      out.push_back('\\');
      out.push_back(static_cast<char>(c));
    }
    else if (c < 0x20 || c >= 0x7f)
    {
      char b[8];
      std::snprintf(b, sizeof(b), "\\u%04x", c);
      out += b;
    }
    else
    {
      out.push_back(static_cast<char>(c));
    }
  }
  out.push_back('"');
}

void json_lines(std::string& out, char const* p, size_t n)
{
  out.push_back('[');
  size_t i = 0;
  bool first = true;
  while (i < n)
  {
    size_t j = i;
    while (j < n && p[j] != '\n') ++j;
    if (!first) out.push_back(',');
    first = false;
    json_str(out, p + i, j - i);
    if (j == n) // no terminating newline: a torn line, mark it
    {
      out.insert(out.size() - 1, "\\u0000TORN");
    }
    i = j + 1;
  }
  out.push_back(']');
}

struct Slot
{
  pid_t pid{0};
  int scn{-1};
  Shm* shm{nullptr};
  std::string dir;
  std::chrono::steady_clock::time_point t0;
};

char const* ev_name(int k)
{
  switch (k)
  {
  case EV_STARTCALL: return "StartCall";
  case EV_STARTRET: return "StartRet";
  case EV_LOGCALL: return "LogCall";
  case EV_LOGRET: return "LogRet";
  case EV_STOPCALL: return "StopCall";
  case EV_STOPRET: return "StopRet";
  case EV_ENDCALL: return "EndCall";
  case EV_FIN: return "Fin";
  default: return "Torn";
  }
}

void report(Scenario const& sc, Slot& sl, int status, bool timed_out, std::string& out)
{
  double const ms = std::chrono::duration<double, std::milli>(std::chrono::steady_clock::now() - sl.t0).count();
  out += "{\"id\":";
  json_str(out, sc.id.data(), sc.id.size());
  char b[160];
  if (timed_out)
    std::snprintf(b, sizeof(b), ",\"status\":{\"kind\":\"timeout\",\"code\":0,\"sig\":0}");
  else if (WIFEXITED(status))
    std::snprintf(b, sizeof(b), ",\"status\":{\"kind\":\"exited\",\"code\":%d,\"sig\":0}", WEXITSTATUS(status));
  else if (WIFSIGNALED(status))
    std::snprintf(b, sizeof(b), ",\"status\":{\"kind\":\"killed\",\"code\":0,\"sig\":%d}", WTERMSIG(status));
  else
    std::snprintf(b, sizeof(b), ",\"status\":{\"kind\":\"other\",\"code\":%d,\"sig\":0}", status);
  out += b;
  std::snprintf(b, sizeof(b), ",\"ms\":%.2f,\"setup_failed\":%u,\"events\":[", ms, sl.shm->setup_failed.load());
  out += b;
  uint32_t n = sl.shm->nev.load();
  if (n > MAXEV) n = MAXEV;
  for (uint32_t i = 0; i < n; ++i)
  {
    Ev const& e = sl.shm->ev[i];
    if (i) out.push_back(',');
    std::snprintf(b, sizeof(b), "{\"e\":\"%s\",\"t\":%d,\"a\":%d,\"b\":%d,\"c\":%d", ev_name(e.kind.load()), e.t, e.a, e.b, e.c);
    out += b;
    if (e.kind.load() == EV_STOPRET)
    {
      out += ",\"lines\":";
      if (e.len < 0)
        out += "null";
      else
        json_lines(out, sl.shm->text + e.off, static_cast<size_t>(e.len));
    }
    out.push_back('}');
  }
  out += "],\"lines\":";
  std::string const content = read_file((sl.dir + "/log.txt").c_str());
  json_lines(out, content.data(), content.size());
  out += "}\n";
}

void rm_dir(std::string const& d)
{
  ::unlink((d + "/log.txt").c_str());
  ::rmdir(d.c_str());
}
} // namespace

int main(int argc, char** argv)
{
  if (argc < 4)
  {
    std::fprintf(stderr, "usage: h_life <scenarios> <scratch> <parallel>\n");
    return 2;
  }
  std::vector<Scenario> scns;
  {
    std::ifstream in(argv[1]);
    std::string line;
    while (std::getline(in, line))
    {
      if (line.empty()) continue;
      Scenario sc;
      if (!parse_scenario(line, sc))
      {
        std::fprintf(stderr, "bad scenario line: %s\n", line.c_str());
        return 2;
      }
      scns.push_back(std::move(sc));
    }
  }
  std::string const scratch = argv[2];
  int const par = std::max(1, std::atoi(argv[3]));
  long const child_timeout_ms = std::getenv("H_LIFE_TIMEOUT_MS") ? std::atol(std::getenv("H_LIFE_TIMEOUT_MS")) : 12000;
  std::vector<Slot> slots(static_cast<size_t>(par));
  for (Slot& s : slots)
  {
    void* p = mmap(nullptr, sizeof(Shm), PROT_READ | PROT_WRITE, MAP_SHARED | MAP_ANONYMOUS, -1, 0);
    if (p == MAP_FAILED)
    {
      std::perror("mmap");
      return 2;
    }
    s.shm = static_cast<Shm*>(p);
  }
  size_t next = 0, finished = 0;
  int running = 0;
  std::string out;
  while (finished < scns.size())
  {
    for (size_t k = 0; k < slots.size() && next < scns.size(); ++k)
    {
      Slot& sl = slots[k];
      if (sl.pid != 0) continue;
      std::memset(static_cast<void*>(sl.shm), 0, sizeof(Shm));
      sl.scn = static_cast<int>(next);
      sl.dir = scratch + "/c" + std::to_string(next);
      ::mkdir(sl.dir.c_str(), 0755);
      sl.t0 = std::chrono::steady_clock::now();
      pid_t pid = fork();
      if (pid < 0)
      {
        std::perror("fork");
        return 2;
      }
      if (pid == 0)
      {
        // the child: its main() continues here, so "return from main" really is one
        int const rc = child_main(scns[next], sl.shm, sl.dir);
        return rc;
      }
      sl.pid = pid;
      ++next;
      ++running;
    }
    // reap
    bool reaped = false;
    for (Slot& sl : slots)
    {
      if (sl.pid == 0) continue;
      int status = 0;
      pid_t r = waitpid(sl.pid, &status, WNOHANG);
      bool timed_out = false;
      if (r == 0)
      {
        auto const el = std::chrono::duration_cast<std::chrono::milliseconds>(std::chrono::steady_clock::now() - sl.t0).count();
        if (el > child_timeout_ms)
        {
          ::kill(sl.pid, SIGKILL);
          waitpid(sl.pid, &status, 0);
          timed_out = true;
          r = sl.pid;
        }
      }
      if (r == sl.pid)
      {
        report(scns[static_cast<size_t>(sl.scn)], sl, status, timed_out, out);
        rm_dir(sl.dir);
        sl.pid = 0;
        --running;
        ++finished;
        reaped = true;
      }
    }
    if (!out.empty() && (out.size() > (1 << 16) || finished == scns.size()))
    {
      size_t off = 0;
      while (off < out.size())
      {
        ssize_t w = ::write(1, out.data() + off, out.size() - off);
        if (w <= 0) return 2;
        off += static_cast<size_t>(w);
      }
      out.clear();
    }
    if (!reaped) ::usleep(100);
  }
  return 0;
}
