// Backend-stop harness (C07 under release/acquire): the REAL backend worker thread (BackendWorker::run's loop and _exit()), the
// REAL Backend::stop() and a REAL frontend log call, all compiled against the shim std::atomic of shim_ra.h (message
// histories, vector clocks, happens-before lower bounds for loads). Two named objects: R = BackendWorker::_is_worker_running,
// W = the writer position of the logging thread's queue. Logical thread 0 = X (logs, then calls Backend::stop()), logical
// thread 1 = B (the real backend thread). B is parked at every load of R (the head of its `while (running)` loop); a script
// line releases it for ONE loop iteration and says which message that R load reads and which message every W load of that
// iteration reads (all other atomics of the library read their latest value).
//   h_stop <script> <trace-out>
// A second logging thread Y (logical thread 2, a real thread that logs on command and then ends) has its own queue, named WY.
// `X flushcall` starts logger->flush_log() on a helper thread (logical thread 0) and returns once the request is committed; the
// local flag of that call is named FL when it is constructed; `X flushret` waits for the call to return (it does once B has
// stored the flag) and reports whether the sink writes of X's statements are ordered before the caller (wclk <= its clock).
// script: init | X log | X stop | X flushcall | X flushret | Y log | Y exit | X join | B <ir> <iw> <iwy> | end   (1-based, 0 = latest)
// Fine-grained mode (spec/NewCtxRA.tla): `policy <t>:<obj>:<load|store|rmw> ...` says at which named accesses which logical
// thread parks (after init: 1:R:load); `Z1 start|log` / `Z2 start|log` are two more logging threads (logical 3, 4) created after
// the baseline, so their first log call registers a thread context (log is posted, the thread parks inside it); `S <t> [idx]`
// releases logical thread t from its park (idx = the message its load reads) until it parks again or its command completes;
// `drain <n>` clears the policy, releases everybody and lets the backend run n more loop iterations.
// F = ThreadContextManager::_new_thread_context_flag.
#include <algorithm>
#include <any>
#include <array>
#include <atomic>
#include <bitset>
#include <cassert>
#include <cerrno>
#include <charconv>
#include <chrono>
#include <cinttypes>
#include <climits>
#include <cmath>
#include <condition_variable>
#include <csignal>
#include <cstdarg>
#include <cstddef>
#include <cstdint>
#include <cstdio>
#include <cstdlib>
#include <cstring>
#include <ctime>
#include <deque>
#include <exception>
#include <filesystem>
#include <forward_list>
#include <fstream>
#include <functional>
#include <future>
#include <initializer_list>
#include <iomanip>
#include <iostream>
#include <iterator>
#include <limits>
#include <list>
#include <locale>
#include <map>
#include <memory>
#include <mutex>
#include <new>
#include <numeric>
#include <optional>
#include <queue>
#include <random>
#include <set>
#include <sstream>
#include <stdexcept>
#include <string>
#include <string_view>
#include <system_error>
#include <thread>
#include <tuple>
#include <type_traits>
#include <typeinfo>
#include <unordered_map>
#include <unordered_set>
#include <utility>
#include <variant>
#include <vector>

#define SHIM_MT 1
#define SHIM_NT 6
#include "shim_ra.h"

#define atomic verif_atomic
#include "quill/Backend.h"
#include "quill/Frontend.h"
#include "quill/LogMacros.h"
#include "quill/Logger.h"
#include "quill/sinks/Sink.h"
#include "quill/filters/Filter.h"
#undef atomic

// -DHSTOP_DROP: a small bounded DROPPING queue (spec/CounterRA.tla): `X logbig` logs a statement of which two fit; a third is
// dropped (ThreadContext::_failure_counter, named C); the error notifier's "Dropped N log messages" reports are summed.
struct FO
{
#ifdef HSTOP_DROP
  static constexpr quill::QueueType queue_type = quill::QueueType::BoundedDropping;
  static constexpr size_t initial_queue_capacity = 512;
#else
  static constexpr quill::QueueType queue_type = quill::QueueType::BoundedBlocking;
  static constexpr size_t initial_queue_capacity = 4096;
#endif
  static constexpr uint32_t blocking_queue_retry_interval_ns = 800;
  static constexpr size_t unbounded_queue_max_capacity = 4096;
  static constexpr quill::HugePagesPolicy huge_pages_policy = quill::HugePagesPolicy::Never;
};
using VFrontend = quill::FrontendImpl<FO>;
using VLogger = quill::LoggerImpl<FO>;

static std::atomic<long> g_delivered{0}, g_delivered_y{0};
static shim::Clock g_wclk, g_dclk;
static std::atomic<bool> g_sink_dead{false};
static std::mutex g_wr_mx;
static std::vector<long> g_written;          // serial numbers of the "X c<k> <n>" statements the sink received
// a filter that rejects the statements of one class ("X c<k> ...")
struct ClassFilter : quill::Filter
{
  std::string tag;
  explicit ClassFilter(int k) : quill::Filter("class" + std::to_string(k)), tag("X c" + std::to_string(k) + " ") {}
  bool filter(quill::MacroMetadata const*, uint64_t, std::string_view, std::string_view, std::string_view, quill::LogLevel,
              std::string_view msg, std::string_view) noexcept override
  {
    return msg.substr(0, tag.size()) != tag;
  }
};
struct CountSink : quill::Sink
{
  void write_log(quill::MacroMetadata const*, uint64_t, std::string_view, std::string_view, std::string const&, std::string_view,
                 quill::LogLevel, std::string_view, std::string_view, std::vector<std::pair<std::string, std::string>> const*,
                 std::string_view msg, std::string_view) override
  {
    {
      // a sink write is a plain access of the backend thread: it ticks the thread's clock; X's statements remember it
      std::lock_guard<std::recursive_mutex> lk(shim::g_mx);
      if (shim::g_thr >= 0)
      {
        ++shim::g_clk[shim::g_thr].c[shim::g_thr];
        if (msg.empty() || msg[0] != 'Y') g_wclk = shim::g_clk[shim::g_thr];
      }
    }
    if (!msg.empty() && msg[0] == 'Y') g_delivered_y.fetch_add(1);
    if (msg.size() > 4 && msg.substr(0, 3) == "X c")
    {
      std::lock_guard<std::mutex> l(g_wr_mx);
      g_written.push_back(std::strtol(std::string(msg.substr(5)).c_str(), nullptr, 10));
    }
    g_delivered.fetch_add(1);
  }
  void flush_sink() override {}
  ~CountSink() override
  {
    // the destruction of the sink (remove_logger_blocking: "its sinks are destroyed") is a plain access of the backend thread
    std::lock_guard<std::recursive_mutex> lk(shim::g_mx);
    if (shim::g_thr >= 0)
    {
      ++shim::g_clk[shim::g_thr].c[shim::g_thr];
      g_dclk = shim::g_clk[shim::g_thr];
    }
    g_sink_dead.store(true);
  }
};

// --- parking: by default the backend thread at the head of its loop; in general any logical thread at the accesses of `policy`
static std::mutex s_mx;
static std::condition_variable s_cv;
static bool s_armed = false, s_stop_done = false;
static bool s_parked_at[shim::NT] = {}, s_go_t[shim::NT] = {};
static std::string s_where[shim::NT];
static std::set<std::string> s_policy;
static long s_wloads = 0, s_wyloads = 0, s_rloads = 0, s_xdrops = 0;
static std::atomic<long> g_reported{0};
#define s_parked s_parked_at[1]
#define s_go s_go_t[1]

static void park(std::string const& nm, int t, int kind)
{
  if (t == 1 && kind == 0)
  {
    if (nm == "W") { ++s_wloads; return; }
    if (nm == "WY") { ++s_wyloads; return; }
  }
  std::unique_lock<std::mutex> l(s_mx);
  if (t == 1 && kind == 0 && nm == "R") { ++s_rloads; s_cv.notify_all(); }
  if (t == 0 && kind == 2 && nm == "C") ++s_xdrops;
  if (!s_armed) return;
  static char const* const kinds[] = {"load", "store", "rmw"};
  if (!s_policy.count(std::to_string(t) + ":" + nm + ":" + kinds[kind])) return;
  s_parked_at[t] = true;
  s_where[t] = nm + ":" + kinds[kind];
  s_cv.notify_all();
  s_cv.wait(l, [t] { return s_go_t[t]; });
  s_go_t[t] = false;
  s_parked_at[t] = false;
}

// --- a logging thread that executes commands (X: logical thread 0, Y: logical thread 2)
struct Worker
{
  int logical;
  char tag;
  std::mutex mx;
  std::condition_variable cv;
  int cmd = 0;            // 0 none, 1 warm-up (set-up mode), 2 log, 3 exit the thread, 4 flush_log(), 5 Backend::stop()
  bool ack = true;        // the last command has completed
  bool flush_visible = false, remove_visible = false;
  int karg = 0;           // argument of the commands 7 (add the class-k filter to the sink) and 8 (log a class-k statement)
  quill::Sink* sink = nullptr;
  long committed = 0;
  quill::detail::ThreadContext* ctx = nullptr;
  std::thread th;
  void start(VLogger* logger)
  {
    th = std::thread([this, logger] {
      shim::g_thr = -1;
      while (true)
      {
        int c;
        { std::unique_lock<std::mutex> l(mx); cv.wait(l, [this] { return cmd != 0; }); c = cmd; cmd = 0; }
        if (c == 1) { LOG_INFO(logger, "warm {}", 0); ctx = quill::detail::get_local_thread_context<FO>(); }
        else if (c == 2)
        {
          shim::g_thr = logical;
          if (tag == 'Y') LOG_INFO(logger, "Y statement {}", committed); else LOG_INFO(logger, "X statement {}", committed);
          shim::g_thr = -1;
          if (!ctx) ctx = quill::detail::get_local_thread_context<FO>();
          ++committed;
        }
        else if (c == 6)
        {
          shim::g_thr = logical;
          LOG_INFO(logger, "X big {}", std::string(150, 'x'));
          shim::g_thr = -1;
          ++committed;
        }
        else if (c == 9)
        {
          shim::g_thr = logical;
          VFrontend::remove_logger_blocking(logger);
          { std::lock_guard<std::recursive_mutex> lk(shim::g_mx); remove_visible = g_sink_dead.load() && shim::leq(g_dclk, shim::g_clk[logical]); }
          shim::g_thr = -1;
        }
        else if (c == 7)
        {
          shim::g_thr = logical;
          sink->add_filter(std::make_unique<ClassFilter>(karg));
          shim::g_thr = -1;
        }
        else if (c == 8)
        {
          shim::g_thr = logical;
          LOG_INFO(logger, "X c{} {}", karg, committed);
          shim::g_thr = -1;
          ++committed;
        }
        else if (c == 4)
        {
          shim::g_thr = logical;
          logger->flush_log();
          { std::lock_guard<std::recursive_mutex> lk(shim::g_mx); flush_visible = shim::leq(g_wclk, shim::g_clk[logical]); }
          shim::g_thr = -1;
        }
        else if (c == 5)
        {
          shim::g_thr = logical;
          quill::Backend::stop();
          shim::g_thr = -1;
          { std::lock_guard<std::mutex> l(s_mx); s_stop_done = true; }
          s_cv.notify_all();
        }
        { std::lock_guard<std::mutex> l(mx); ack = true; }
        cv.notify_all();
        if (c == 3) { shim::g_thr = logical; return; }      // thread exit: ~ScopedThreadContext marks the context invalid
      }
    });
  }
  void post(int c) { { std::lock_guard<std::mutex> l(mx); cmd = c; ack = false; } cv.notify_all(); }
  void wait() { std::unique_lock<std::mutex> l(mx); cv.wait(l, [this] { return ack; }); }
  void run(int c) { post(c); wait(); }
  size_t wsize()
  {
    std::lock_guard<std::recursive_mutex> lk(shim::g_mx);
    return ctx->get_spsc_queue_union().bounded_spsc_queue._atomic_writer_pos.h.size();
  }
};

int main(int argc, char** argv)
{
  if (argc < 3) { std::fprintf(stderr, "usage: h_stop <script> <trace-out>\n"); return 2; }
  shim::g_thr = -1;
  shim::g_default_thr = 1;
  shim::g_park = &park;
  std::ifstream in(argv[1]);
  { std::lock_guard<std::recursive_mutex> lk(shim::g_mx); shim::g_out.open(argv[2]); }
  auto emit = [](std::string const& s) { std::lock_guard<std::recursive_mutex> lk(shim::g_mx); shim::g_out << s << "\n"; shim::g_out.flush(); };

  VLogger* logger = nullptr;
  static Worker X, Y, Z[3];
  X.logical = 0; X.tag = 'X';
  Y.logical = 2; Y.tag = 'Y';
  Z[0].logical = 3; Z[0].tag = 'Z';
  Z[1].logical = 4; Z[1].tag = 'Z';
  Z[2].logical = 5; Z[2].tag = 'Z';
  auto zlogged = [&] { return Z[0].committed + Z[1].committed + Z[2].committed; };
  auto written_json = []
  {
    std::lock_guard<std::mutex> l(g_wr_mx);
    std::string o = "[";
    for (size_t i = 0; i < g_written.size(); ++i) o += (i ? "," : "") + std::to_string(g_written[i]);
    return o + "]";
  };
  auto filters_locked = [&]
  {
    std::lock_guard<std::recursive_mutex> lk(shim::g_mx);
    return X.sink && !g_sink_dead.load() && X.sink->_global_filters_lock._flag.h.back().val == quill::detail::Spinlock::State::Locked;
  };
  auto cache_size = [] { return quill::detail::BackendManager::instance()._backend_worker._active_thread_contexts_cache.size(); };
  auto state_json = [&](int t)
  {
    std::string w;
    bool parked;
    { std::lock_guard<std::mutex> l(s_mx); parked = s_parked_at[t]; w = parked ? s_where[t] : std::string{}; }
    return "\"t\":" + std::to_string(t) + ",\"at\":\"" + w + "\",\"cache\":" + std::to_string(cache_size()) + ",\"delivered\":" +
      std::to_string(g_delivered.load()) + ",\"reported\":" + std::to_string(g_reported.load()) + ",\"written\":" + written_json() +
      ",\"flock\":" + (filters_locked() ? "true" : "false");
  };
  auto wait_thread = [&](int t)
  {
    // until logical thread t is parked, or (a worker) its command has completed, or (the backend) stop() has returned
    Worker* w = t == 0 ? &X : t == 2 ? &Y : t >= 3 ? &Z[t - 3] : nullptr;
    while (true)
    {
      {
        std::unique_lock<std::mutex> l(s_mx);
        if ((s_parked_at[t] && !s_go_t[t]) || (t == 1 && s_stop_done)) return;
      }
      if (w) { std::lock_guard<std::mutex> l(w->mx); if (w->ack) { std::lock_guard<std::mutex> l2(s_mx); if (!s_parked_at[t]) return; } }
      std::this_thread::sleep_for(std::chrono::microseconds{20});
    }
  };
  std::string line;
  while (std::getline(in, line))
  {
    std::stringstream ss(line);
    std::string c, op;
    ss >> c;
    if (c == "init")
    {
      quill::BackendOptions bo;
      bo.sleep_duration = std::chrono::nanoseconds{0};
      bo.enable_yield_when_idle = false;
      bo.check_backend_singleton_instance = false;
      bo.error_notifier = [](std::string const& s)
      {
        auto const p = s.find("Dropped ");
        if (p != std::string::npos) g_reported.fetch_add(std::strtol(s.c_str() + p + 8, nullptr, 10));
        else std::fprintf(stderr, "notifier: %s\n", s.c_str());
      };
      auto sink = VFrontend::create_or_get_sink<CountSink>("count");
      X.sink = sink.get();
      logger = VFrontend::create_or_get_logger("L", std::move(sink));
      // warm-up in set-up mode, BEFORE the backend exists (so that no unscripted race can occur): both thread contexts are
      // registered (X's first) and hold one statement; then the backend starts, picks them up and empties the queues
      X.start(logger);
      X.run(1);
      Y.start(logger);
      Y.run(1);
      quill::Backend::start(bo);
      while (g_delivered.load() < 2) std::this_thread::sleep_for(std::chrono::microseconds{50});
      auto& bw = quill::detail::BackendManager::instance()._backend_worker;
      auto& qx = X.ctx->get_spsc_queue_union().bounded_spsc_queue;
      auto& qy = Y.ctx->get_spsc_queue_union().bounded_spsc_queue;
      {
        std::lock_guard<std::recursive_mutex> lk(shim::g_mx);
        shim::g_names[&bw._is_worker_running] = "R";
        shim::g_names[&qx._atomic_writer_pos] = "W";
        shim::g_names[&qy._atomic_writer_pos] = "WY";
        shim::g_names[&Y.ctx->_valid] = "V";
        shim::g_names[&quill::detail::ThreadContextManager::instance()._new_thread_context_flag] = "F";
        shim::g_names[&X.ctx->_failure_counter] = "C";
        shim::g_names[&quill::detail::ThreadContextManager::instance()._spinlock._flag] = "L";      // (parked at only on request)
        shim::g_names[&X.sink->_new_filter] = "NF";
        shim::g_names[&quill::detail::LoggerManager::instance()._has_invalidated_loggers] = "H";      // (for its orders only)        // named for its memory orders only: never scripted, reads the newest message
      }
      // arm: from now on B parks at the head of its loop
      { std::lock_guard<std::mutex> l(s_mx); s_armed = true; s_policy = {"1:R:load"}; }
      { std::unique_lock<std::mutex> l(s_mx); s_cv.wait(l, [] { return s_parked; }); }
      // baseline: the named objects start with one message each, known to everybody
      {
        std::lock_guard<std::recursive_mutex> lk(shim::g_mx);
        auto collapse = [](auto& a)
        {
          auto last = a.h.back();
          last.rel = shim::Clock{};
          last.ev = shim::Clock{};
          a.h.clear();
          a.h.push_back(last);
          for (auto& v : a.view) v = 0;
        };
        collapse(bw._is_worker_running);
        collapse(qx._atomic_writer_pos);
        collapse(qy._atomic_writer_pos);
        collapse(quill::detail::ThreadContextManager::instance()._new_thread_context_flag);
        collapse(X.ctx->_failure_counter);
        collapse(X.sink->_new_filter);
        g_wclk = shim::Clock{};
      }
      g_delivered.store(0);
      g_delivered_y.store(0);
      emit("{\"e\":\"init\"}");
    }
    else if (c == "X")
    {
      ss >> op;
      if (op == "log")
      {
        X.run(2);
        emit("{\"e\":\"committed\",\"n\":" + std::to_string(X.committed) + "}");
      }
      else if (op == "addfilter" || op == "logc")
      {
        ss >> X.karg;
        X.post(op == "addfilter" ? 7 : 8);
        wait_thread(0);
        emit(std::string("{\"e\":\"") + (op == "addfilter" ? "xadd" : "xlogc") + "\",\"k\":" + std::to_string(X.karg) + ",\"n\":" +
             std::to_string(X.committed - (op == "logc" ? 1 : 0)) + "," + state_json(0) + "}");
      }
      else if (op == "logbig")
      {
        // posted: the call parks inside if the statement is dropped and the policy says so (0:C:rmw)
        X.post(6);
        wait_thread(0);
        emit("{\"e\":\"xcall\"," + state_json(0) + "}");
      }
      else if (op == "flushcall")
      {
        size_t const before = X.wsize();
        { std::lock_guard<std::recursive_mutex> lk(shim::g_mx); shim::g_autoname = "FL"; }
        X.post(4);
        while (X.wsize() == before) std::this_thread::sleep_for(std::chrono::microseconds{50});      // the request is committed
        emit("{\"e\":\"flushcall\",\"committed\":" + std::to_string(X.committed) + "}");
      }
      else if (op == "removecall")
      {
        { std::lock_guard<std::recursive_mutex> lk(shim::g_mx); shim::g_autoname = "RB"; }
        X.post(9);
        // until the request is committed and remove_logger has been called (the manager's flag stored)
        while (true)
        {
          {
            std::lock_guard<std::recursive_mutex> lk(shim::g_mx);
            if (quill::detail::LoggerManager::instance()._has_invalidated_loggers.h.size() >= 2) break;
          }
          std::this_thread::sleep_for(std::chrono::microseconds{50});
        }
        emit("{\"e\":\"removecall\",\"committed\":" + std::to_string(X.committed) + "}");
      }
      else if (op == "removeret")
      {
        X.wait();
        emit(std::string("{\"e\":\"removed\",\"sinkdead\":") + (g_sink_dead.load() ? "true" : "false") + ",\"visible\":" +
             (X.remove_visible ? "true" : "false") + ",\"loggers\":" + std::to_string(VFrontend::get_number_of_loggers()) + "}");
      }
      else if (op == "flushret")
      {
        X.wait();
        emit("{\"e\":\"flushed\",\"delivered\":" + std::to_string(g_delivered.load() - g_delivered_y.load()) + ",\"visible\":" +
             (X.flush_visible ? "true" : "false") + "}");
      }
      else if (op == "join")
      {
        std::lock_guard<std::recursive_mutex> lk(shim::g_mx);
        shim::g_clk[0] = shim::join(shim::g_clk[0], shim::g_clk[2]);
        shim::g_out << "{\"e\":\"joined\",\"ycommitted\":" << Y.committed << "}\n";
      }
      else if (op == "stop")
      {
        X.post(5);
        // wait until the stop request (the exchange on the running flag) has been made
        while (true)
        {
          {
            std::lock_guard<std::recursive_mutex> lk(shim::g_mx);
            if (quill::detail::BackendManager::instance()._backend_worker._is_worker_running.h.size() >= 2) break;
          }
          std::this_thread::sleep_for(std::chrono::microseconds{50});
        }
        emit("{\"e\":\"stopreq\",\"committed\":" + std::to_string(X.committed) + "}");
      }
    }
    else if (c == "Y")
    {
      ss >> op;
      if (op == "log")
      {
        Y.run(2);
        emit("{\"e\":\"ycommitted\",\"n\":" + std::to_string(Y.committed) + "}");
      }
      else if (op == "exit")
      {
        Y.run(3);
        Y.th.join();      // (the native join only makes sure the thread's destructors have run; the model's join is `X join`)
        emit("{\"e\":\"yexited\"}");
      }
    }
    else if (c == "B")
    {
      long ir = 0, iw = 0, iwy = 0;
      ss >> ir >> iw >> iwy;
      bool done;
      { std::lock_guard<std::mutex> l(s_mx); done = s_stop_done; }
      if (done) { emit("{\"e\":\"bstep\",\"skipped\":true}"); continue; }
      {
        std::lock_guard<std::recursive_mutex> lk(shim::g_mx);
        shim::g_choices.clear();
        shim::g_choices["R"].push_back(ir);
        shim::g_sticky["W"] = iw;
        shim::g_sticky["WY"] = iwy;
        s_wloads = 0;
        s_wyloads = 0;
      }
      { std::lock_guard<std::mutex> l(s_mx); s_go = true; }
      s_cv.notify_all();
      // B runs one iteration: until it parks at the next load of R, or until the backend thread has ended and stop() returned
      {
        std::unique_lock<std::mutex> l(s_mx);
        s_cv.wait(l, [] { return (s_parked && !s_go) || s_stop_done; });
      }
      bool fin;
      { std::lock_guard<std::mutex> l(s_mx); fin = s_stop_done; }
      long wl, wyl;
      { std::lock_guard<std::recursive_mutex> lk(shim::g_mx); wl = s_wloads; wyl = s_wyloads; }
      // (the backend is parked or has ended: its cache and the counters can be read)
      emit("{\"e\":\"bstep\",\"wloads\":" + std::to_string(wl) + ",\"wyloads\":" + std::to_string(wyl) + ",\"finished\":" + (fin ? "true" : "false") +
           ",\"cache\":" + std::to_string(cache_size()) + ",\"delivered_y\":" + std::to_string(g_delivered_y.load()) + ",\"ycommitted\":" +
           std::to_string(Y.committed) + "}");
      if (fin)
        emit("{\"e\":\"stopped\",\"delivered\":" + std::to_string(g_delivered.load() - g_delivered_y.load()) + ",\"delivered_y\":" +
             std::to_string(g_delivered_y.load()) + ",\"committed\":" + std::to_string(X.committed) + "}");
    }
    else if (c == "policy")
    {
      std::lock_guard<std::mutex> l(s_mx);
      s_policy.clear();
      std::string k;
      while (ss >> k) s_policy.insert(k);
    }
    else if (c == "Z1" || c == "Z2" || c == "Z3")
    {
      Worker& z = Z[c[1] - '1'];
      ss >> op;
      if (op == "start") z.start(logger);
      else if (op == "log")
      {
        z.post(2);
        wait_thread(z.logical);
        emit("{\"e\":\"zcall\"," + state_json(z.logical) + "}");
      }
    }
    else if (c == "S")
    {
      int t = 1;
      long idx = 0;
      ss >> t >> idx;
      bool parked;
      std::string where;
      { std::lock_guard<std::mutex> l(s_mx); parked = s_parked_at[t]; where = s_where[t]; }
      if (!parked) { emit("{\"e\":\"sstep\",\"t\":" + std::to_string(t) + ",\"skipped\":true}"); continue; }
      {
        std::lock_guard<std::recursive_mutex> lk(shim::g_mx);
        shim::g_choices.clear();
        if (where.size() > 5 && where.substr(where.size() - 5) == ":load") shim::g_choices[where.substr(0, where.size() - 5)].push_back(idx);
        shim::g_sticky.clear();
      }
      { std::lock_guard<std::mutex> l(s_mx); s_go_t[t] = true; }
      s_cv.notify_all();
      wait_thread(t);
      emit("{\"e\":\"sstep\",\"was\":\"" + where + "\"," + state_json(t) + "}");
    }
    else if (c == "note")
    {
      std::string ev;
      long k = 0;
      ss >> ev >> k;
      emit("{\"e\":\"" + ev + "\",\"k\":" + std::to_string(k) + "}");
    }
    else if (c == "A")
    {
      // advance logical thread t (the backend) past its loop-head parks: until it parks at another access, or has gone round idle
      int t = 1;
      ss >> t;
      int rounds = 0;
      while (rounds < 3)
      {
        std::string where;
        bool parked;
        { std::lock_guard<std::mutex> l(s_mx); parked = s_parked_at[t]; where = s_where[t]; }
        if (!parked || where != "R:load") break;
        { std::lock_guard<std::recursive_mutex> lk(shim::g_mx); shim::g_choices.clear(); shim::g_sticky.clear(); }
        { std::lock_guard<std::mutex> l(s_mx); s_go_t[t] = true; }
        s_cv.notify_all();
        wait_thread(t);
        ++rounds;
      }
      emit("{\"e\":\"adv\"," + state_json(t) + "}");
    }
    else if (c == "drain")
    {
      long n = 8;
      ss >> n;
      {
        std::lock_guard<std::mutex> l(s_mx);
        s_policy.clear();
        for (int t = 0; t < shim::NT; ++t) if (s_parked_at[t]) s_go_t[t] = true;
      }
      { std::lock_guard<std::recursive_mutex> lk(shim::g_mx); shim::g_choices.clear(); shim::g_sticky.clear(); }
      s_cv.notify_all();
      // first the logging threads complete their calls, THEN the backend gets n full loop iterations
      for (auto& z : Z) if (z.th.joinable()) z.wait();
      X.wait();
      std::string mode;
      ss >> mode;
      // `drain n flush`: every new thread that has logged now calls flush_log(); it must return while the backend keeps running.
      // The backend's n iterations start only when every flush request is committed (so it cannot park before having seen them).
      std::vector<Worker*> flushing;
      if (mode == "flush")
        for (auto& z : Z)
          if (z.th.joinable() && z.committed > 0 && z.ctx)
          {
            size_t const before = z.wsize();
            z.post(4);
            while (z.wsize() == before) std::this_thread::sleep_for(std::chrono::microseconds{50});
            flushing.push_back(&z);
          }
      bool stopped = false;
      if (mode == "stop")
      {
        // `drain n stop`: instead of further iterations X calls Backend::stop() (wait_for_queues_to_empty_before_exit): everything the
        // new threads logged - their calls have returned - must be written when it returns
        X.run(5);
        stopped = true;
      }
      else
      {
        {
          std::unique_lock<std::mutex> l(s_mx);
          long const r0 = s_rloads;
          s_cv.wait(l, [&] { return s_rloads >= r0 + n; });
          s_policy = {"1:R:load"};
        }
        { std::unique_lock<std::mutex> l(s_mx); s_cv.wait(l, [] { return s_parked_at[1]; }); }      // parked again: its state can be read
      }
      // A request behind a delivered statement has been processed in those iterations (its flag is set): the call returns, wait for
      // it. If a statement of a new thread is still unwritten, its context was never read: the calls that have not returned are stuck.
      long stuck = 0;
      if (g_delivered.load() >= zlogged()) for (auto* z : flushing) z->wait();
      else for (auto* z : flushing) { std::lock_guard<std::mutex> l(z->mx); if (!z->ack) ++stuck; }
      emit("{\"e\":\"quiet\",\"cache\":" + std::to_string(cache_size()) + ",\"delivered\":" + std::to_string(g_delivered.load()) +
           ",\"zlogged\":" + std::to_string(zlogged()) + ",\"drops\":" + std::to_string(s_xdrops) +
           ",\"reported\":" + std::to_string(g_reported.load()) + ",\"xcalls\":" + std::to_string(X.committed) + ",\"flushstuck\":" + std::to_string(stuck) + ",\"stopped\":" + (stopped ? "true" : "false") + "}");
    }
    else if (c == "end") break;
  }
  {
    std::lock_guard<std::recursive_mutex> lk(shim::g_mx);
    shim::g_out << "{\"e\":\"end\",\"badchoice\":" << (shim::g_bad_choice ? "true" : "false") << "}\n";
    shim::g_out.close();
  }
  std::_Exit(0);
}
