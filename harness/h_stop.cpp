// Backend-stop harness (C07 under release/acquire): the REAL backend worker thread (BackendWorker::run's loop and _exit()), the
// REAL Backend::stop() and a REAL frontend log call, all compiled against the shim std::atomic of shim_ra.h (message
// histories, vector clocks, happens-before lower bounds for loads). Two named objects: R = BackendWorker::_is_worker_running,
// W = the writer position of the logging thread's queue. Logical thread 0 = X (logs, then calls Backend::stop()), logical
// thread 1 = B (the real backend thread). B is parked at every load of R (the head of its `while (running)` loop); a script
// line releases it for ONE loop iteration and says which message that R load reads and which message every W load of that
// iteration reads (all other atomics of the library read their latest value).
//   h_stop <script> <trace-out>
// A second logging thread Y (logical thread 2, a real thread that logs on command and then ends) has its own queue, named WY.
// script: init | X log | X stop | Y log | Y exit | X join | B <ir> <iw> <iwy> | end        (1-based message indexes, 0 = latest)
#include <algorithm>
#include <any>
#include <array>
#include <atomic>
#include <bitset>
#include <cassert>
#include <cerrno>
#include <charconv>
#include <chrono>
#include <cinttypes>
#include <climits>
#include <cmath>
#include <condition_variable>
#include <csignal>
#include <cstdarg>
#include <cstddef>
#include <cstdint>
#include <cstdio>
#include <cstdlib>
#include <cstring>
#include <ctime>
#include <deque>
#include <exception>
#include <filesystem>
#include <forward_list>
#include <fstream>
#include <functional>
#include <future>
#include <initializer_list>
#include <iomanip>
#include <iostream>
#include <iterator>
#include <limits>
#include <list>
#include <locale>
#include <map>
#include <memory>
#include <mutex>
#include <new>
#include <numeric>
#include <optional>
#include <queue>
#include <random>
#include <set>
#include <sstream>
#include <stdexcept>
#include <string>
#include <string_view>
#include <system_error>
#include <thread>
#include <tuple>
#include <type_traits>
#include <typeinfo>
#include <unordered_map>
#include <unordered_set>
#include <utility>
#include <variant>
#include <vector>

#define SHIM_MT 1
#define SHIM_NT 3
#include "shim_ra.h"

#define atomic verif_atomic
#include "quill/Backend.h"
#include "quill/Frontend.h"
#include "quill/LogMacros.h"
#include "quill/Logger.h"
#include "quill/sinks/Sink.h"
#undef atomic

struct FO
{
  static constexpr quill::QueueType queue_type = quill::QueueType::BoundedBlocking;
  static constexpr size_t initial_queue_capacity = 4096;
  static constexpr uint32_t blocking_queue_retry_interval_ns = 800;
  static constexpr size_t unbounded_queue_max_capacity = 4096;
  static constexpr quill::HugePagesPolicy huge_pages_policy = quill::HugePagesPolicy::Never;
};
using VFrontend = quill::FrontendImpl<FO>;
using VLogger = quill::LoggerImpl<FO>;

static std::atomic<long> g_delivered{0}, g_delivered_y{0};
struct CountSink : quill::Sink
{
  void write_log(quill::MacroMetadata const*, uint64_t, std::string_view, std::string_view, std::string const&, std::string_view,
                 quill::LogLevel, std::string_view, std::string_view, std::vector<std::pair<std::string, std::string>> const*,
                 std::string_view msg, std::string_view) override
  {
    count(msg);
    g_delivered.fetch_add(1);
  }
  void count(std::string_view m) { if (!m.empty() && m[0] == 'Y') g_delivered_y.fetch_add(1); }
  void flush_sink() override {}
};

// --- parking of the backend thread at the head of its loop
static std::mutex s_mx;
static std::condition_variable s_cv;
static bool s_armed = false, s_parked = false, s_go = false, s_stop_done = false;
static long s_wloads = 0, s_wyloads = 0;
// --- the second logging thread
static std::mutex y_mx;
static std::condition_variable y_cv;
static int y_cmd = 0;          // 0 none, 1 warm-up (set-up mode), 2 log, 3 exit
static bool y_ack = false;
static quill::detail::ThreadContext* y_ctx = nullptr;
static long y_committed = 0;

static void park(std::string const& nm, int t)
{
  if (t != 1) return;
  if (nm == "W") { ++s_wloads; return; }
  if (nm == "WY") { ++s_wyloads; return; }
  if (nm != "R") return;
  std::unique_lock<std::mutex> l(s_mx);
  if (!s_armed) return;
  s_parked = true;
  s_cv.notify_all();
  s_cv.wait(l, [] { return s_go; });
  s_go = false;
  s_parked = false;
}

static void wait_parked_or_done()
{
  std::unique_lock<std::mutex> l(s_mx);
  s_cv.wait(l, [] { return s_parked || s_stop_done; });
}

int main(int argc, char** argv)
{
  if (argc < 3) { std::fprintf(stderr, "usage: h_stop <script> <trace-out>\n"); return 2; }
  shim::g_thr = -1;
  shim::g_default_thr = 1;
  shim::g_park = &park;
  std::ifstream in(argv[1]);
  { std::lock_guard<std::recursive_mutex> lk(shim::g_mx); shim::g_out.open(argv[2]); }
  auto emit = [](std::string const& s) { std::lock_guard<std::recursive_mutex> lk(shim::g_mx); shim::g_out << s << "\n"; shim::g_out.flush(); };

  VLogger* logger = nullptr;
  std::thread ythread;
  auto ycommand = [](int c)
  {
    { std::lock_guard<std::mutex> l(y_mx); y_cmd = c; y_ack = false; }
    y_cv.notify_all();
    std::unique_lock<std::mutex> l(y_mx);
    y_cv.wait(l, [] { return y_ack; });
  };
  long committed = 0;
  bool stop_requested = false;
  std::thread stopper;
  std::string line;
  while (std::getline(in, line))
  {
    std::stringstream ss(line);
    std::string c, op;
    ss >> c;
    if (c == "init")
    {
      quill::BackendOptions bo;
      bo.sleep_duration = std::chrono::nanoseconds{0};
      bo.enable_yield_when_idle = false;
      bo.check_backend_singleton_instance = false;
      bo.error_notifier = [](std::string const& s) { std::fprintf(stderr, "notifier: %s\n", s.c_str()); };
      quill::Backend::start(bo);
      auto sink = VFrontend::create_or_get_sink<CountSink>("count");
      logger = VFrontend::create_or_get_logger("L", std::move(sink));
      // warm-up in set-up mode: the thread context exists and is in the backend's cache, the queue is empty again
      LOG_INFO(logger, "warm {}", 0);
      while (g_delivered.load() < 1) std::this_thread::sleep_for(std::chrono::microseconds{50});
      ythread = std::thread([logger] {
        shim::g_thr = -1;
        while (true)
        {
          int cmd;
          { std::unique_lock<std::mutex> l(y_mx); y_cv.wait(l, [] { return y_cmd != 0; }); cmd = y_cmd; y_cmd = 0; }
          if (cmd == 1) { LOG_INFO(logger, "warm y {}", 0); y_ctx = quill::detail::get_local_thread_context<FO>(); }
          else if (cmd == 2) { shim::g_thr = 2; LOG_INFO(logger, "Y statement {}", y_committed); shim::g_thr = -1; ++y_committed; }
          { std::lock_guard<std::mutex> l(y_mx); y_ack = true; }
          y_cv.notify_all();
          if (cmd == 3) { shim::g_thr = 2; return; }      // thread exit: ~ScopedThreadContext marks the context invalid
        }
      });
      ycommand(1);
      while (g_delivered.load() < 2) std::this_thread::sleep_for(std::chrono::microseconds{50});
      auto& bw = quill::detail::BackendManager::instance()._backend_worker;
      auto& q = quill::detail::get_local_thread_context<FO>()->get_spsc_queue_union().bounded_spsc_queue;
      {
        std::lock_guard<std::recursive_mutex> lk(shim::g_mx);
        shim::g_names[&bw._is_worker_running] = "R";
        shim::g_names[&q._atomic_writer_pos] = "W";
        shim::g_names[&y_ctx->get_spsc_queue_union().bounded_spsc_queue._atomic_writer_pos] = "WY";
        shim::g_names[&y_ctx->_valid] = "V";        // named for its memory orders only: never scripted, reads the newest message
      }
      // arm: from now on B parks at the head of its loop
      { std::lock_guard<std::mutex> l(s_mx); s_armed = true; }
      wait_parked_or_done();
      // baseline: the two named objects start with one message each, known to everybody
      {
        std::lock_guard<std::recursive_mutex> lk(shim::g_mx);
        auto collapse = [](auto& a)
        {
          auto last = a.h.back();
          last.rel = shim::Clock{};
          last.ev = shim::Clock{};
          a.h.clear();
          a.h.push_back(last);
          a.view[0] = a.view[1] = 0;
        };
        collapse(bw._is_worker_running);
        collapse(q._atomic_writer_pos);
        collapse(y_ctx->get_spsc_queue_union().bounded_spsc_queue._atomic_writer_pos);
      }
      g_delivered.store(0);
      g_delivered_y.store(0);
      emit("{\"e\":\"init\"}");
    }
    else if (c == "X")
    {
      ss >> op;
      if (op == "log")
      {
        shim::g_thr = 0;
        LOG_INFO(logger, "statement {}", committed);
        shim::g_thr = -1;
        ++committed;
        emit("{\"e\":\"committed\",\"n\":" + std::to_string(committed) + "}");
      }
      else if (op == "join")
      {
        std::lock_guard<std::recursive_mutex> lk(shim::g_mx);
        shim::g_clk[0] = shim::join(shim::g_clk[0], shim::g_clk[2]);
        shim::g_out << "{\"e\":\"joined\",\"ycommitted\":" << y_committed << "}\n";
      }
      else if (op == "stop")
      {
        stopper = std::thread([] {
          shim::g_thr = 0;
          quill::Backend::stop();
          { std::lock_guard<std::mutex> l(s_mx); s_stop_done = true; }
          s_cv.notify_all();
        });
        // wait until the stop request (the exchange on the running flag) has been made
        while (true)
        {
          {
            std::lock_guard<std::recursive_mutex> lk(shim::g_mx);
            if (quill::detail::BackendManager::instance()._backend_worker._is_worker_running.h.size() >= 2) break;
          }
          std::this_thread::sleep_for(std::chrono::microseconds{50});
        }
        stop_requested = true;
        emit("{\"e\":\"stopreq\",\"committed\":" + std::to_string(committed) + "}");
      }
    }
    else if (c == "Y")
    {
      ss >> op;
      if (op == "log")
      {
        ycommand(2);
        emit("{\"e\":\"ycommitted\",\"n\":" + std::to_string(y_committed) + "}");
      }
      else if (op == "exit")
      {
        ycommand(3);
        ythread.join();      // (the native join only makes sure the thread's destructors have run; the model's join is `X join`)
        emit("{\"e\":\"yexited\"}");
      }
    }
    else if (c == "B")
    {
      long ir = 0, iw = 0, iwy = 0;
      ss >> ir >> iw >> iwy;
      bool done;
      { std::lock_guard<std::mutex> l(s_mx); done = s_stop_done; }
      if (done) { emit("{\"e\":\"bstep\",\"skipped\":true}"); continue; }
      {
        std::lock_guard<std::recursive_mutex> lk(shim::g_mx);
        shim::g_choices.clear();
        shim::g_choices["R"].push_back(ir);
        shim::g_sticky["W"] = iw;
        shim::g_sticky["WY"] = iwy;
        s_wloads = 0;
        s_wyloads = 0;
      }
      { std::lock_guard<std::mutex> l(s_mx); s_go = true; }
      s_cv.notify_all();
      // B runs one iteration: until it parks at the next load of R, or until the backend thread has ended and stop() returned
      {
        std::unique_lock<std::mutex> l(s_mx);
        s_cv.wait(l, [] { return (s_parked && !s_go) || s_stop_done; });
      }
      bool fin;
      { std::lock_guard<std::mutex> l(s_mx); fin = s_stop_done; }
      long wl, wyl;
      { std::lock_guard<std::recursive_mutex> lk(shim::g_mx); wl = s_wloads; wyl = s_wyloads; }
      emit("{\"e\":\"bstep\",\"wloads\":" + std::to_string(wl) + ",\"wyloads\":" + std::to_string(wyl) + ",\"finished\":" + (fin ? "true" : "false") + "}");
      if (fin)
        emit("{\"e\":\"stopped\",\"delivered\":" + std::to_string(g_delivered.load() - g_delivered_y.load()) + ",\"delivered_y\":" +
             std::to_string(g_delivered_y.load()) + ",\"committed\":" + std::to_string(committed) + "}");
    }
    else if (c == "end") break;
  }
  (void)stop_requested;
  {
    std::lock_guard<std::recursive_mutex> lk(shim::g_mx);
    shim::g_out << "{\"e\":\"end\",\"badchoice\":" << (shim::g_bad_choice ? "true" : "false") << "}\n";
    shim::g_out.close();
  }
  std::_Exit(0);
}
