// Replays operation sequences into the real quill::detail::TransitEventBuffer and prints what it observes.
//   h_ring <script> ; script lines: "new <initcap>" | "push <v>" | "pop" | "front" | "reqshrink" | "tryshrink"
#include "quill/backend/TransitEventBuffer.h"
#include <cstdio>
#include <fstream>
#include <iostream>
#include <memory>
#include <sstream>
#include <string>
int main(int argc, char** argv)
{
  if (argc < 2) return 2;
  std::ifstream in(argv[1]);
  std::string line;
  std::unique_ptr<quill::detail::TransitEventBuffer> rb;
  while (std::getline(in, line))
  {
    std::stringstream ss(line);
    std::string op;
    ss >> op;
    long res = 0;
    if (op == "new") { unsigned c; ss >> c; rb = std::make_unique<quill::detail::TransitEventBuffer>(c); printf("{\"op\":\"new\",\"cap\":%zu}\n", rb->capacity()); continue; }
    if (op == "push") { unsigned long v; ss >> v; auto* te = rb->back(); te->timestamp = v; te->formatted_msg->clear(); te->formatted_msg->append(std::to_string(v)); rb->push_back(); }
    else if (op == "pop")
    {
      auto* te = rb->front();
      res = te ? static_cast<long>(te->timestamp) : -1;
      // the formatted message buffer must travel with the event through expansions
      if (te && (!te->formatted_msg || std::string(te->formatted_msg->data(), te->formatted_msg->size()) != std::to_string(te->timestamp))) res = -2;
      if (te) rb->pop_front();
    }
    else if (op == "front") { auto* te = rb->front(); res = te ? static_cast<long>(te->timestamp) : 0; }
    else if (op == "reqshrink") rb->request_shrink();
    else if (op == "tryshrink") rb->try_shrink();
    printf("{\"op\":\"%s\",\"res\":%ld,\"size\":%zu,\"cap\":%zu,\"empty\":%s}\n", op.c_str(), res, rb->size(), rb->capacity(), rb->empty() ? "true" : "false");
  }
  return 0;
}
