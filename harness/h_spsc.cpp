// Queue-level harness: executes the REAL quill SPSC queues against a shim std::atomic that implements the
// release/acquire model of spec/SpscRA.tla (store histories, per-thread views, vector clocks). Two LOGICAL threads
// (P = producer, C = consumer) are interleaved by the script at the granularity of the queue's public functions;
// each atomic load returns the store the script chooses. Payload bytes go through a happens-before race detector.
//   h_spsc <script> <trace-out>
#include <algorithm>
#include <cassert>
#include <cerrno>
#include <csignal>
#include <cstddef>
#include <cstdint>
#include <cstdio>
#include <cstdlib>
#include <cstring>
#include <deque>
#include <fstream>
#include <functional>
#include <iostream>
#include <limits>
#include <map>
#include <memory>
#include <new>
#include <sstream>
#include <string>
#include <sys/mman.h>
#include <type_traits>
#include <unistd.h>
#include <vector>
#include <atomic>

// ------------------------------------------------------------------ shim runtime
namespace shim
{
struct Clock { unsigned c[2]{0, 0}; };
inline Clock join(Clock a, Clock const& b) { a.c[0] = std::max(a.c[0], b.c[0]); a.c[1] = std::max(a.c[1], b.c[1]); return a; }

inline int g_thr = 0;                   // current logical thread: 0 = P, 1 = C
inline Clock g_clk[2];
inline std::deque<long> g_choices;      // indexes (1-based) for the next atomic loads; 0/absent = latest
inline int g_next_obj = 0;
inline bool g_sealing = false;
inline unsigned long long g_rng = 88172645463325252ull;
inline unsigned long long rnd() { g_rng ^= g_rng << 13; g_rng ^= g_rng >> 7; g_rng ^= g_rng << 17; return g_rng; }

struct Access { int obj; char op; int mo; long idx; unsigned long long val; bool dead; int thr; };
inline std::vector<Access> g_acc;       // accesses performed by the current step
inline bool g_dead_access = false, g_bad_choice = false;

inline bool is_acq(std::memory_order m) { return m == std::memory_order_acquire || m == std::memory_order_acq_rel || m == std::memory_order_seq_cst || m == std::memory_order_consume; }
inline bool is_rel(std::memory_order m) { return m == std::memory_order_release || m == std::memory_order_acq_rel || m == std::memory_order_seq_cst; }

struct ObjInfo { bool dead{false}; int nstores{0}; std::vector<unsigned long long> vals; };
inline std::vector<ObjInfo> g_objs;
// per-thread view of every atomic object (index into its history): lower bound for loads (coherence + happens-before)
inline std::vector<size_t> g_view[2];
inline size_t& view_of(int t, int obj) { if (g_view[t].size() <= static_cast<size_t>(obj)) g_view[t].resize(obj + 1, 0); return g_view[t][obj]; }
inline void join_view(int t, std::vector<size_t> const& v) { for (size_t i = 0; i < v.size(); ++i) { size_t& x = view_of(t, static_cast<int>(i)); if (v[i] > x) x = v[i]; } }
inline bool g_ctor_race = false;
inline bool g_setup = true;             // objects constructed during set-up precede both threads
inline long g_step = 0;                 // harness step counter (an object's constructor runs within one step)
}

namespace std
{
template <typename T>
struct verif_atomic
{
  struct St { T val; shim::Clock clk; std::vector<size_t> view; };
  std::vector<St> h;
  int id;
  bool dead{false};
  unsigned ctor_clk{0};   // producer clock at construction (0 = constructed before the threads started)
  bool touched{false};    // accessed since construction
  long born_step{0};

  static unsigned long long as_ull(T v)
  {
    if constexpr (std::is_pointer_v<T>) return reinterpret_cast<unsigned long long>(v);
    else return static_cast<unsigned long long>(v);
  }
  void reg() { id = shim::g_next_obj++; shim::g_objs.emplace_back(); }
  void born() { ctor_clk = shim::g_setup ? 0u : ++shim::g_clk[shim::g_thr].c[shim::g_thr]; born_step = shim::g_step; }
  verif_atomic() noexcept { reg(); born(); h.push_back({T{}, {}, {}}); note(); }
  verif_atomic(T v) noexcept { reg(); born(); h.push_back({v, {}, {}}); note(); }
  verif_atomic(verif_atomic const&) = delete;
  verif_atomic& operator=(verif_atomic const&) = delete;
  ~verif_atomic() { dead = true; shim::g_objs[id].dead = true; }
  void note()
  {
    auto& o = shim::g_objs[id];
    o.nstores = static_cast<int>(h.size());
    o.vals.clear();
    for (auto& s : h) o.vals.push_back(as_ull(s.val));
  }
  // constructor-time stores happen-before everything: collapse the history to the last value
  void seal(T v)
  {
    h.clear(); h.push_back({v, {}, {}});
    shim::view_of(0, id) = 0; shim::view_of(1, id) = 0;
    touched = true;
    note();
  }
  void seal() { seal(h.back().val); }
  void ctor_check(int t) const { if (t == 1 && shim::g_clk[1].c[0] < ctor_clk) shim::g_ctor_race = true; }

  T load(std::memory_order mo = std::memory_order_seq_cst) const noexcept
  {
    auto* self = const_cast<verif_atomic*>(this);
    int const t = shim::g_thr;
    if (dead) shim::g_dead_access = true;
    ctor_check(t);
    self->touched = true;
    size_t const lo = shim::view_of(t, id);
    size_t idx = h.size() - 1;
    if (!shim::g_choices.empty())
    {
      long c = shim::g_choices.front();
      shim::g_choices.pop_front();
      if (c > 0)
      {
        idx = static_cast<size_t>(c - 1);
        if (idx >= h.size() || idx < lo) { shim::g_bad_choice = true; idx = h.size() - 1; }
      }
      else if (c < 0)
      {
        // any store the memory model allows: coherence lower bound = this thread's view
        idx = lo + static_cast<size_t>(shim::rnd() % (h.size() - lo));
      }
    }
    (void)self;
    shim::view_of(t, id) = idx;
    if (shim::is_acq(mo)) { shim::g_clk[t] = shim::join(shim::g_clk[t], h[idx].clk); shim::join_view(t, h[idx].view); }
    shim::g_acc.push_back({id, 'L', static_cast<int>(mo), static_cast<long>(idx + 1), as_ull(h[idx].val), dead, t});
    return h[idx].val;
  }
  void store(T v, std::memory_order mo = std::memory_order_seq_cst) noexcept
  {
    int const t = shim::g_thr;
    if (dead) shim::g_dead_access = true;
    ctor_check(t);
    // a constructor re-storing the initial value before anyone has looked is initialisation, not a message
    if (!touched && h.size() == 1 && as_ull(v) == as_ull(h[0].val) && (shim::g_setup || born_step == shim::g_step)) return;
    touched = true;
    shim::g_clk[t].c[t]++;
    shim::view_of(t, id) = h.size();
    if (shim::is_rel(mo)) h.push_back({v, shim::g_clk[t], shim::g_view[t]});
    else h.push_back({v, shim::Clock{}, {}});
    note();
    shim::g_acc.push_back({id, 'S', static_cast<int>(mo), static_cast<long>(h.size()), as_ull(v), dead, t});
  }
  operator T() const noexcept { return load(); }
  T operator=(T v) noexcept { store(v); return v; }
};
}

// quarantine: memory is never really released, so accesses to retired nodes are observable instead of UB
static bool g_quarantine = false;
static std::vector<std::pair<void*, size_t>> g_unmapped;
extern "C" int munmap(void* addr, size_t len)
{
  if (g_quarantine)
  {
    g_unmapped.emplace_back(addr, len);
    mprotect(addr, len, PROT_NONE);   // later payload access faults -> reported by the SIGSEGV handler
    return 0;
  }
  return static_cast<int>(syscall(11 /*SYS_munmap*/, addr, len));
}
// remember what was really requested from the kernel: the usable extent of a queue's storage is measured, not assumed
static std::vector<std::pair<char*, size_t>> g_mapped;
extern "C" void* mmap(void* addr, size_t len, int prot, int flags, int fd, off_t off)
{
  void* p = reinterpret_cast<void*>(syscall(9 /*SYS_mmap*/, addr, len, prot, flags, fd, off));
  if (p != MAP_FAILED) g_mapped.emplace_back(static_cast<char*>(p), len);
  return p;
}
static size_t extent_of(std::byte* storage, size_t claimed)
{
  char* s = reinterpret_cast<char*>(storage);
  for (auto it = g_mapped.rbegin(); it != g_mapped.rend(); ++it)
    if (s >= it->first && s < it->first + it->second)
      return std::min(claimed, static_cast<size_t>(it->first + it->second - s));
  return claimed;
}
void operator delete(void* p) noexcept { if (!g_quarantine) free(p); }
void operator delete(void* p, size_t) noexcept { if (!g_quarantine) free(p); }
void operator delete(void* p, std::align_val_t) noexcept { if (!g_quarantine) free(p); }
void operator delete(void* p, size_t, std::align_val_t) noexcept { if (!g_quarantine) free(p); }

#define atomic verif_atomic
#include "quill/core/UnboundedSPSCQueue.h"
#undef atomic

// ------------------------------------------------------------------ trace
static std::vector<std::string> g_lines;
static std::string g_out;
static void dump()
{
  FILE* f = fopen(g_out.c_str(), "w");
  if (!f) return;
  for (auto& l : g_lines) { fputs(l.c_str(), f); fputc('\n', f); }
  fclose(f);
}
static void on_segv(int)
{
  g_lines.push_back("{\"e\":\"Fault\",\"what\":\"access to retired or foreign memory (SIGSEGV)\"}");
  dump();
  _exit(4);
}

#ifndef VT
  #define VT uint8_t
#endif
using T = VT;
using BQ = quill::detail::BoundedSPSCQueueImpl<T>;
using UQ = quill::detail::UnboundedSPSCQueue;
using UBQ = quill::detail::BoundedSPSCQueue;

// ------------------------------------------------------------------ payload race detector (per storage byte)
struct Cell { unsigned wclk{0}; unsigned rclk{0}; bool written{false}; unsigned char val{0}; long rec{-1}; };
struct Region { std::byte* base; size_t len; std::vector<Cell> cells; int node; };
static std::vector<Region> g_regions;
static Region* region_of(std::byte* p)
{
  for (auto& r : g_regions) if (p >= r.base && p < r.base + r.len) return &r;
  return nullptr;
}
struct Rec { long id; size_t len; bool committed{false}; bool consumed{false}; };
static std::vector<Rec> g_recs;      // records granted, in order
static bool f_early = false, f_overwr = false, f_content = false, f_oob = false;

static unsigned char pat(long id, size_t j) { return static_cast<unsigned char>((id * 37 + static_cast<long>(j) * 11 + 5) & 0xff); }

static void payload_write(std::byte* p, size_t n, long id)
{
  shim::g_thr = 0;
  shim::g_clk[0].c[0]++;
  Region* r = region_of(p);
  if (!r || p + n > r->base + r->len) { f_oob = true; return; }
  size_t o = static_cast<size_t>(p - r->base);
  for (size_t j = 0; j < n; ++j)
  {
    Cell& c = r->cells[o + j];
    if (c.written && (c.rclk == 0 || c.rclk > shim::g_clk[0].c[1])) f_overwr = true;
    c.written = true; c.wclk = shim::g_clk[0].c[0]; c.rclk = 0; c.rec = id;
    // record layout: [len lo][len hi][pattern...]; sizes 1 and 2 carry (part of) the length only
    unsigned char v = j == 0 ? static_cast<unsigned char>(n & 0xff) : (j == 1 ? static_cast<unsigned char>((n >> 8) & 0xff) : pat(id, j));
    c.val = v;
    reinterpret_cast<unsigned char*>(p)[j] = v;
  }
}

// reads the record at p the way a decoder would: length from the payload itself
static size_t payload_read(std::byte* p, long expect_id, size_t expect_len, size_t cap)
{
  shim::g_thr = 1;
  shim::g_clk[1].c[1]++;
  Region* r = region_of(p);
  if (!r) { f_oob = true; return 0; }
  size_t o = static_cast<size_t>(p - r->base);
  auto rd = [&](size_t j) -> unsigned char
  {
    if (o + j >= r->len) { f_oob = true; return 0; }
    Cell& c = r->cells[o + j];
    if (!c.written || c.wclk > shim::g_clk[1].c[0]) f_early = true;
    c.rclk = shim::g_clk[1].c[1];
    return reinterpret_cast<unsigned char*>(p)[j];
  };
  size_t n = rd(0);
  if (expect_len >= 2) n |= static_cast<size_t>(rd(1)) << 8;
  else if (expect_len == 1 && n != 1) { /* garbage length */ }
  if (n != expect_len) { f_content = true; n = expect_len; }
  for (size_t j = 2; j < n; ++j)
    if (rd(j) != pat(expect_id, j)) f_content = true;
  (void)cap;
  return n;
}

// ------------------------------------------------------------------ script
static std::map<std::string, std::string> kv(std::vector<std::string> const& tok, size_t from)
{
  std::map<std::string, std::string> m;
  for (size_t i = from; i < tok.size(); ++i)
  {
    auto p = tok[i].find('=');
    if (p == std::string::npos) m[tok[i]] = "1"; else m[tok[i].substr(0, p)] = tok[i].substr(p + 1);
  }
  return m;
}
static long geti(std::map<std::string, std::string> const& m, char const* k, long d) { auto it = m.find(k); return it == m.end() ? d : std::stol(it->second); }
static void set_choices(std::map<std::string, std::string> const& m)
{
  shim::g_choices.clear();
  auto it = m.find("ld");
  if (it == m.end()) return;
  std::stringstream ss(it->second);
  std::string x;
  while (std::getline(ss, x, ',')) if (!x.empty()) shim::g_choices.push_back(std::stol(x));
}

static std::string mo_name(int mo)
{
  switch (static_cast<std::memory_order>(mo))
  {
  case std::memory_order_relaxed: return "rlx";
  case std::memory_order_consume: return "con";
  case std::memory_order_acquire: return "acq";
  case std::memory_order_release: return "rel";
  case std::memory_order_acq_rel: return "ar";
  default: return "sc";
  }
}

static std::string acc_json()
{
  std::ostringstream os;
  os << "[";
  for (size_t i = 0; i < shim::g_acc.size(); ++i)
  {
    auto& a = shim::g_acc[i];
    if (i) os << ",";
    os << "{\"obj\":" << a.obj << ",\"op\":\"" << a.op << "\",\"mo\":\"" << mo_name(a.mo) << "\",\"idx\":" << a.idx
       << ",\"val\":" << (a.val & 0xffffffffull) << ",\"dead\":" << (a.dead ? "true" : "false") << ",\"t\":" << a.thr << "}";
  }
  os << "]";
  return os.str();
}
static std::string vals_json(int obj, unsigned long long mask = ~0ull)
{
  std::ostringstream os;
  os << "[";
  auto& v = shim::g_objs[obj].vals;
  for (size_t i = 0; i < v.size(); ++i) { if (i) os << ","; os << (v[i] & mask); }
  os << "]";
  return os.str();
}
static std::string flags_json()
{
  std::ostringstream os;
  os << "{\"early\":" << (f_early ? "true" : "false") << ",\"overwr\":" << (f_overwr ? "true" : "false")
     << ",\"content\":" << (f_content ? "true" : "false") << ",\"oob\":" << (f_oob ? "true" : "false")
     << ",\"dead\":" << (shim::g_dead_access ? "true" : "false") << ",\"ctor\":" << (shim::g_ctor_race ? "true" : "false")
     << ",\"badchoice\":" << (shim::g_bad_choice ? "true" : "false") << "}";
  return os.str();
}

int main(int argc, char** argv)
{
  if (argc < 3) return 2;
  g_out = argv[2];
  signal(SIGSEGV, on_segv);
  signal(SIGBUS, on_segv);
  std::ifstream in(argv[1]);
  std::string line;
  std::unique_ptr<BQ> bq;
  UQ* uq = nullptr;
  std::byte* wptr = nullptr; size_t wn = 0; long wid = 0;
  std::byte* rptr = nullptr; size_t rn = 0;
  long next_id = 1;
  size_t cap = 0;
  int step = 0;
  std::map<void*, int> node_ids;   // unbounded: node -> ordinal
  size_t max_alloc = 0;
  auto reg_node = [&](UQ::Node* n) -> int
  {
    auto it = node_ids.find(n);
    if (it != node_ids.end()) return it->second;
    int k = static_cast<int>(node_ids.size());
    node_ids[n] = k;
    max_alloc = std::max(max_alloc, static_cast<size_t>(n->bounded_queue._capacity));

    size_t len = extent_of(n->bounded_queue._storage, 2 * n->bounded_queue._capacity);
    g_regions.push_back({n->bounded_queue._storage, len, std::vector<Cell>(len), k});
    return k;
  };
  auto node_json = [&](UQ::Node* n)
  {
    std::ostringstream os;
    auto& q = n->bounded_queue;
    os << "{\"node\":" << reg_node(n) << ",\"cap\":" << q._capacity << ",\"w\":" << q._writer_pos << ",\"rc\":" << q._reader_pos_cache
       << ",\"r\":" << q._reader_pos << ",\"wc\":" << q._writer_pos_cache << ",\"aw\":" << vals_json(q._atomic_writer_pos.id, 0xffffffffull)
       << ",\"ar\":" << vals_json(q._atomic_reader_pos.id, 0xffffffffull) << ",\"batch\":" << q._bytes_per_batch << ",\"nextset\":" << (shim::g_objs[n->next.id].vals.back() != 0 ? "true" : "false")
       << ",\"nextn\":" << shim::g_objs[n->next.id].vals.size() << "}";
    return os.str();
  };

  bool last_granted = false, last_got = false;
  std::vector<long> finished;   // records finished but not yet committed
  std::function<bool(std::vector<std::string> const&)> exec = [&](std::vector<std::string> const& tok) -> bool
  {
    std::string const& c = tok[0];
    shim::g_acc.clear();
    std::ostringstream ev;
    ++step;
    ++shim::g_step;
    if (c == "init")
    {
      auto a = kv(tok, 1);
      cap = static_cast<size_t>(geti(a, "cap", 4));
      long pct = geti(a, "pct", 5);
      T start = static_cast<T>(geti(a, "start", 0));
      bq.reset();
      shim::g_next_obj = 0; shim::g_objs.clear(); g_regions.clear(); g_recs.clear();
      shim::g_view[0].clear(); shim::g_view[1].clear(); shim::g_ctor_race = false;
      shim::g_clk[0] = shim::g_clk[1] = shim::Clock{};
      f_early = f_overwr = f_content = f_oob = false; shim::g_dead_access = shim::g_bad_choice = false;
      next_id = 1; wptr = rptr = nullptr; finished.clear();
      shim::g_setup = true;
      bq = std::make_unique<BQ>(static_cast<T>(cap), quill::HugePagesPolicy::Never, static_cast<T>(pct));
      shim::g_setup = false;
      bq->_atomic_writer_pos.seal(start); bq->_atomic_reader_pos.seal(start);
      bq->_writer_pos = bq->_reader_pos = bq->_reader_pos_cache = bq->_writer_pos_cache = start;
      size_t len = extent_of(bq->_storage, 2 * static_cast<size_t>(bq->_capacity));
      g_regions.push_back({bq->_storage, len, std::vector<Cell>(len), 0});
      cap = bq->_capacity;
      ev << "{\"e\":\"Init\",\"cap\":" << static_cast<unsigned long long>(bq->_capacity) << ",\"mask\":" << static_cast<unsigned long long>(bq->_mask)
         << ",\"batch\":" << static_cast<unsigned long long>(bq->_bytes_per_batch) << ",\"bits\":" << (sizeof(T) * 8)
         << ",\"start\":" << static_cast<unsigned long long>(start) << ",\"storage\":" << len << "}";
    }
    else if (c == "uinit")
    {
      auto a = kv(tok, 1);
      g_quarantine = true;
      shim::g_next_obj = 0; shim::g_objs.clear(); g_regions.clear(); g_recs.clear(); node_ids.clear(); max_alloc = 0;
      shim::g_view[0].clear(); shim::g_view[1].clear(); shim::g_ctor_race = false;
      shim::g_clk[0] = shim::g_clk[1] = shim::Clock{};
      f_early = f_overwr = f_content = f_oob = false; shim::g_dead_access = shim::g_bad_choice = false;
      next_id = 1; wptr = rptr = nullptr;
      shim::g_setup = true;
      uq = new UQ(static_cast<size_t>(geti(a, "cap", 4)), static_cast<size_t>(geti(a, "max", 16)));
      shim::g_setup = false;
      uq->_producer->next.seal();
      uq->_producer->bounded_queue._atomic_writer_pos.seal();
      uq->_producer->bounded_queue._atomic_reader_pos.seal();
      reg_node(uq->_producer);
      ev << "{\"e\":\"UInit\",\"cap\":" << uq->_producer->bounded_queue._capacity << ",\"max\":" << uq->_max_capacity
         << ",\"batch\":" << uq->_producer->bounded_queue._bytes_per_batch << "}";
    }
    else if (c == "P" || c == "C")
    {
      shim::g_thr = (c == "P") ? 0 : 1;
      std::string const& op = tok[1];
      auto a = kv(tok, 2);
      set_choices(a);
      ev << "{\"e\":\"Step\",\"t\":\"" << c << "\",\"op\":\"" << op << "\"";
      // ---------------- bounded
      if (op == "pw")
      {
        size_t n = static_cast<size_t>(geti(a, "n", 1));
        std::byte* p = bq->prepare_write(static_cast<T>(n));
        ev << ",\"n\":" << n << ",\"granted\":" << (p ? "true" : "false") << ",\"probe\":" << (geti(a, "probe", 0) ? "true" : "false");
        last_granted = p != nullptr;
        if (p) { wptr = p; wn = n; wid = next_id++; g_recs.push_back({wid, n}); ev << ",\"off\":" << (p - bq->_storage) << ",\"id\":" << wid; }
      }
      else if (op == "write") { payload_write(wptr, wn, wid); ev << ",\"id\":" << wid; }
      else if (op == "fc")
      {
        bq->finish_write(static_cast<T>(wn)); bq->commit_write();
        finished.push_back(wid);
        ev << ",\"id\":" << wid << ",\"ids\":[";
        for (size_t i = 0; i < finished.size(); ++i)
        {
          for (auto& r : g_recs) if (r.id == finished[i]) r.committed = true;
          ev << (i ? "," : "") << finished[i];
        }
        ev << "]";
        finished.clear();
      }
      else if (op == "fw")
      {
        // finish_write without commit: the record is complete but must stay invisible to the consumer
        bq->finish_write(static_cast<T>(wn));
        finished.push_back(wid);
        ev << ",\"id\":" << wid;
      }
      else if (op == "cw")
      {
        // one commit_write publishes every finished record
        bq->commit_write();
        ev << ",\"ids\":[";
        for (size_t i = 0; i < finished.size(); ++i)
        {
          for (auto& r : g_recs) if (r.id == finished[i]) r.committed = true;
          ev << (i ? "," : "") << finished[i];
        }
        ev << "]";
        finished.clear();
      }
      else if (op == "pr")
      {
        std::byte* p = bq->prepare_read();
        rptr = p;
        last_got = p != nullptr;
        ev << ",\"got\":" << (p ? "true" : "false");
        if (p) ev << ",\"off\":" << (p - bq->_storage);
      }
      else if (op == "read")
      {
        // FIFO expectation: the next unconsumed granted record
        Rec* nx = nullptr;
        for (auto& r : g_recs) if (!r.consumed) { nx = &r; break; }
        if (!nx || !rptr) { f_content = true; rn = 1; ev << ",\"id\":-1"; }
        else
        {
          rn = payload_read(rptr, nx->id, nx->len, cap);
          ev << ",\"id\":" << nx->id << ",\"committed\":" << (nx->committed ? "true" : "false") << ",\"len\":" << rn;
          nx->consumed = true;
        }
      }
      else if (op == "fr") { bq->finish_read(static_cast<T>(rn)); }
      else if (op == "cr") { bq->commit_read(); }
      // ---------------- unbounded
      else if (op == "upw")
      {
        size_t n = static_cast<size_t>(geti(a, "n", 1));
        std::byte* p = nullptr;
        bool threw = false;
        try { p = uq->prepare_write(n); } catch (std::exception const&) { threw = true; }
        reg_node(uq->_producer);
        last_granted = p != nullptr;
        ev << ",\"n\":" << n << ",\"granted\":" << (p ? "true" : "false") << ",\"threw\":" << (threw ? "true" : "false")
           << ",\"probe\":" << (geti(a, "probe", 0) ? "true" : "false");
        if (p) { wptr = p; wn = n; wid = next_id++; g_recs.push_back({wid, n}); ev << ",\"id\":" << wid << ",\"node\":" << reg_node(uq->_producer)
                   << ",\"off\":" << (p - uq->_producer->bounded_queue._storage); }
      }
      else if (op == "ufc")
      {
        uq->finish_write(wn); uq->commit_write();
        for (auto& r : g_recs) if (r.id == wid) r.committed = true;
        ev << ",\"id\":" << wid;
      }
      else if (op == "shrink")
      {
        size_t before = uq->producer_capacity();
        uq->shrink(static_cast<size_t>(geti(a, "c", 1)));
        reg_node(uq->_producer);
        ev << ",\"c\":" << geti(a, "c", 1) << ",\"before\":" << before << ",\"after\":" << uq->producer_capacity();
      }
      else if (op == "upr")
      {
        auto rr = uq->prepare_read();
        rptr = rr.read_pos;
        last_got = rr.read_pos != nullptr;
        reg_node(uq->_consumer);
        ev << ",\"got\":" << (rr.read_pos ? "true" : "false") << ",\"alloc\":" << (rr.allocation ? "true" : "false")
           << ",\"newcap\":" << rr.new_capacity << ",\"prevcap\":" << rr.previous_capacity << ",\"node\":" << reg_node(uq->_consumer);
      }
      else if (op == "ufr") { uq->finish_read(rn); }
      else if (op == "ucr") { uq->commit_read(); }
      else if (op == "uempty") { bool e = uq->empty(); ev << ",\"empty\":" << (e ? "true" : "false"); }
      else { ev << ",\"error\":\"bad op\""; }
      ev << ",\"acc\":" << acc_json() << ",\"flags\":" << flags_json();
      if (bq)
        ev << ",\"st\":{\"w\":" << static_cast<unsigned long long>(bq->_writer_pos) << ",\"rc\":" << static_cast<unsigned long long>(bq->_reader_pos_cache)
           << ",\"r\":" << static_cast<unsigned long long>(bq->_reader_pos) << ",\"wc\":" << static_cast<unsigned long long>(bq->_writer_pos_cache)
           << ",\"aw\":" << vals_json(bq->_atomic_writer_pos.id) << ",\"ar\":" << vals_json(bq->_atomic_reader_pos.id) << "}";
      if (uq)
      {
        ev << ",\"prod\":" << node_json(uq->_producer) << ",\"cons\":" << node_json(uq->_consumer);
        ev << ",\"nodes\":" << node_ids.size() << ",\"maxalloc\":" << max_alloc;
      }
      ev << "}";
    }
    else if (c == "end") return false;
    else { ev << "{\"e\":\"BadLine\"}"; }
    g_lines.push_back(ev.str());
    return true;
  };

  auto fuzz = [&](std::map<std::string, std::string> const& a)
  {
    // seeded random walk over the enabled steps of the two logical threads (bounded queue)
    long steps = geti(a, "steps", 200);
    shim::g_rng = 88172645463325252ull ^ (static_cast<unsigned long long>(geti(a, "seed", 1)) * 0x9E3779B97F4A7C15ull);
    for (int i = 0; i < 8; ++i) shim::rnd();
    size_t maxn = static_cast<size_t>(geti(a, "maxn", static_cast<long>(cap)));
    bool probe = geti(a, "probe", 1) != 0;
    int ppc = 0, cpc = 0;
    bool dirty = false, saw_empty = false;
    auto sz = [&]() -> size_t
    {
      unsigned long long r = shim::rnd() % 10;
      if (r < 2) return std::min(cap, maxn);
      if (r < 4) return 1 + shim::rnd() % std::min<size_t>(3, std::min(cap, maxn));
      return 1 + shim::rnd() % std::min(cap, maxn);
    };
    for (long k = 0; k < steps; ++k)
    {
      bool drained = true;
      for (auto& r : g_recs) if (!r.consumed) drained = false;
      if (probe && ppc == 0 && cpc == 0 && !dirty && saw_empty && drained && (shim::rnd() % 2 == 0))
      {
        exec({"P", "pw", "n=" + std::to_string(cap), "ld=0", "probe=1"});
        if (last_granted) ppc = 1;
        continue;
      }
      bool doP = shim::rnd() % 2 == 0;
      if (doP)
      {
        if (ppc == 0) { exec({"P", "pw", "n=" + std::to_string(sz()), "ld=-1"}); if (last_granted) ppc = 1; }
        else if (ppc == 1) { exec({"P", "write"}); ppc = 2; }
        else if (ppc == 2)
        {
          // finish+commit in one go, or finish only (batched commit: further reservations - granted or refused - may follow
          // before the commit, and nothing finished may become visible before it)
          if (shim::rnd() % 2 == 0) { exec({"P", "fc"}); ppc = 0; }
          else { exec({"P", "fw"}); ppc = 3; }
        }
        else
        {
          if (shim::rnd() % 2 == 0) { exec({"P", "cw"}); ppc = 0; }
          else { exec({"P", "pw", "n=" + std::to_string(sz()), "ld=-1"}); if (last_granted) ppc = 1; }
        }
      }
      else
      {
        if (cpc == 0)
        {
          if (dirty && shim::rnd() % 3 == 0) { exec({"C", "cr"}); dirty = false; }
          else
          {
            exec({"C", "pr", "ld=-1"});
            if (last_got) { cpc = 1; saw_empty = false; }
            else saw_empty = true;
          }
        }
        else if (cpc == 1) { exec({"C", "read"}); cpc = 2; }
        else { exec({"C", "fr"}); cpc = 0; dirty = true; }
      }
      if (f_early || f_overwr || f_content || f_oob) break;   // the rest would be garbage on garbage
    }
  };

  auto ufuzz = [&](std::map<std::string, std::string> const& a)
  {
    // seeded random walk on the unbounded queue: writes of random sizes (some beyond the current node, some beyond
    // the maximum), shrink requests, reads with random legal load results; ends with a drain using latest values
    long steps = geti(a, "steps", 200);
    shim::g_rng = 88172645463325252ull ^ (static_cast<unsigned long long>(geti(a, "seed", 1)) * 0x9E3779B97F4A7C15ull);
    for (int i = 0; i < 8; ++i) shim::rnd();
    size_t maxcap = uq->_max_capacity;
    int ppc = 0, cpc = 0;
    bool dirty = false, quiescent = false, saw_null = false;
    for (long k = 0; k < steps; ++k)
    {
      if (quiescent && ppc == 0 && cpc == 0 && shim::rnd() % 3 == 0)
      {
        // C09: everything committed has been consumed, the consumer observed the queue empty and committed its reads (idle
        // backend). Whatever the producer does next - even after a shrink, before the consumer looks again - a record
        // that fits the maximum capacity must be accepted.
        if (shim::rnd() % 2 == 0)
        {
          size_t pc = uq->producer_capacity();
          exec({"P", "shrink", "c=" + std::to_string(std::max<size_t>(1, pc >> (1 + shim::rnd() % 2)))});
        }
        size_t n = 1 + static_cast<size_t>(shim::rnd() % maxcap);
        if (shim::rnd() % 3 == 0) n = maxcap;
        if (n > 65000) n = 65000;
        exec({"P", "upw", "n=" + std::to_string(n), "probe=1"});
        quiescent = false;
        if (last_granted) ppc = 1;
        continue;
      }
      bool doP = shim::rnd() % 2 == 0;
      if (doP)
      {
        quiescent = false;
        if (ppc == 0)
        {
          unsigned long long r = shim::rnd() % 20;
          if (r == 0) { size_t pc = uq->producer_capacity(); exec({"P", "shrink", "c=" + std::to_string(std::max<size_t>(1, pc >> (1 + shim::rnd() % 2)))}); continue; }
          if (r == 1) { exec({"P", "shrink", "c=" + std::to_string(uq->producer_capacity())}); continue; }
          size_t pc = uq->producer_capacity();
          size_t n;
          unsigned long long q = shim::rnd() % 10;
          if (q == 0) n = maxcap + 1 + static_cast<size_t>(shim::rnd() % 3);              // can never fit: must throw
          else if (q < 3) n = std::min<size_t>(maxcap, pc + 1 + static_cast<size_t>(shim::rnd() % pc));  // beyond the current node
          else n = 1 + static_cast<size_t>(shim::rnd() % pc);
          if (n > 65000) n = 65000;
          exec({"P", "upw", "n=" + std::to_string(n), "ld=-1"});
          if (last_granted) ppc = 1;
        }
        else if (ppc == 1) { exec({"P", "write"}); ppc = 2; }
        else { exec({"P", "ufc"}); ppc = 0; }
      }
      else
      {
        if (cpc == 0)
        {
          if (dirty && shim::rnd() % 3 == 0)
          {
            exec({"C", "ucr"});
            dirty = false;
            bool drained = true;
            for (auto& r : g_recs) if (r.committed && !r.consumed) drained = false;
            quiescent = drained && ppc == 0 && saw_null && uq->empty();
          }
          else if (shim::rnd() % 10 == 0) { exec({"C", "uempty"}); }   // what the backend's emptiness decisions rely on (up-to-date loads)
          else { exec({"C", "upr", "ld=-1,-1,-1,0,-1"}); if (last_got) { cpc = 1; saw_null = false; } else saw_null = true; }
        }
        else if (cpc == 1) { exec({"C", "read"}); cpc = 2; }
        else { exec({"C", "ufr"}); cpc = 0; dirty = true; }
      }
      if (f_early || f_overwr || f_content || f_oob || shim::g_dead_access || shim::g_ctor_race) return;
    }
    // finish the producer's record, then drain with up-to-date loads: everything committed must come out
    if (ppc == 1) { exec({"P", "write"}); ppc = 2; }
    if (ppc == 2) { exec({"P", "ufc"}); ppc = 0; }
    for (int guard = 0; guard < 100000; ++guard)
    {
      if (cpc == 0)
      {
        exec({"C", "upr"});
        if (last_got) cpc = 1;
        else if (uq->empty()) break;   // a null result only means "nothing here now": chained empty nodes need another call
      }
      else if (cpc == 1) { exec({"C", "read"}); cpc = 2; }
      else { exec({"C", "ufr"}); cpc = 0; }
      if (f_early || f_overwr || f_content || f_oob || shim::g_dead_access || shim::g_ctor_race) return;
    }
    exec({"C", "ucr"});   // a backend read pass always ends with commit_read
    size_t pending = 0;
    for (auto& r : g_recs) if (r.committed && !r.consumed) ++pending;
    std::ostringstream ev;
    ev << "{\"e\":\"Drained\",\"pending\":" << pending << "}";
    g_lines.push_back(ev.str());
    // C09 for unbounded queues: with everything consumed a record of the maximum capacity must be accepted
    if (pending == 0 && maxcap <= 65000) exec({"P", "upw", "n=" + std::to_string(maxcap), "probe=1"});
  };

  while (std::getline(in, line))
  {
    if (line.empty() || line[0] == '#') continue;
    std::vector<std::string> tok;
    { std::stringstream ss(line); std::string t; while (ss >> t) tok.push_back(t); }
    if (tok[0] == "fuzz") { fuzz(kv(tok, 1)); continue; }
    if (tok[0] == "ufuzz") { ufuzz(kv(tok, 1)); continue; }
    if (!exec(tok)) break;
  }
  g_lines.push_back("{\"e\":\"End\"}");
  dump();
  _exit(0);
}
