// Lock-level harness: executes the REAL quill::detail::Spinlock against a shim std::atomic that implements the
// release/acquire model of spec/SpinlockRA.tla (one history per atomic object, per-thread views, vector clocks, release
// sequences through read-modify-writes). Logical threads are coroutines; every atomic access and every access to the
// protected datum is a yield point, so the script schedules the threads access by access and chooses, for every relaxed
// or acquire LOAD, which message of the history it reads. The protected datum goes through a happens-before race detector.
//   h_lock <script> <trace-out>
// script:  threads N rounds R      S <t> [idx]   (run thread t for one access; idx = 1-based message a load reads, 0 = latest)
#include <algorithm>
#include <cstdint>
#include <cstdio>
#include <cstdlib>
#include <fstream>
#include <sstream>
#include <string>
#include <ucontext.h>
#include <vector>
#include <atomic>

namespace shim
{
constexpr int MAXT = 4;
struct Clock { unsigned c[MAXT]{}; };
inline Clock join(Clock a, Clock const& b) { for (int i = 0; i < MAXT; ++i) a.c[i] = std::max(a.c[i], b.c[i]); return a; }
inline bool leq(Clock const& a, Clock const& b) { for (int i = 0; i < MAXT; ++i) if (a.c[i] > b.c[i]) return false; return true; }
inline int g_thr = -1;                  // running logical thread (-1 = driver / set-up)
inline Clock g_clk[MAXT];
inline long g_choice = 0;               // message index for the next load (0 = latest)
inline bool g_bad_choice = false;
inline std::ofstream g_out;
inline bool is_acq(std::memory_order m) { return m == std::memory_order_acquire || m == std::memory_order_acq_rel || m == std::memory_order_seq_cst; }
inline bool is_rel(std::memory_order m) { return m == std::memory_order_release || m == std::memory_order_acq_rel || m == std::memory_order_seq_cst; }
inline char const* mo_name(std::memory_order m)
{
  switch (m)
  {
  case std::memory_order_relaxed: return "rlx";
  case std::memory_order_acquire: return "acq";
  case std::memory_order_release: return "rel";
  case std::memory_order_consume: return "acq";
  default: return "ar";
  }
}
void yield_point(char const* what);     // hands control back to the driver; returns when the thread is scheduled again
}

namespace std
{
template <typename T>
struct verif_atomic
{
  struct Msg { T val; shim::Clock clk; };
  std::vector<Msg> h;
  size_t view[shim::MAXT]{};
  verif_atomic() noexcept { h.push_back({T{}, {}}); }
  verif_atomic(T v) noexcept { h.push_back({v, {}}); }
  verif_atomic(verif_atomic const&) = delete;
  verif_atomic& operator=(verif_atomic const&) = delete;

  T load(std::memory_order mo = std::memory_order_seq_cst) const noexcept
  {
    auto* self = const_cast<verif_atomic*>(this);
    if (shim::g_thr < 0) return h.back().val;
    shim::yield_point("load");
    int const t = shim::g_thr;
    size_t idx = h.size() - 1;
    if (shim::g_choice > 0)
    {
      idx = static_cast<size_t>(shim::g_choice - 1);
      if (idx >= h.size() || idx < view[t]) { shim::g_bad_choice = true; idx = h.size() - 1; }
    }
    self->view[t] = idx;
    if (shim::is_acq(mo)) shim::g_clk[t] = shim::join(shim::g_clk[t], h[idx].clk);
    shim::g_out << "{\"e\":\"load\",\"t\":" << t << ",\"mo\":\"" << shim::mo_name(mo) << "\",\"idx\":" << (idx + 1)
                << ",\"val\":" << static_cast<int>(h[idx].val) << ",\"n\":" << h.size() << "}\n";
    return h[idx].val;
  }
  void store(T v, std::memory_order mo = std::memory_order_seq_cst) noexcept
  {
    if (shim::g_thr < 0) { h.back().val = v; return; }
    shim::yield_point("store");
    int const t = shim::g_thr;
    ++shim::g_clk[t].c[t];
    h.push_back({v, shim::is_rel(mo) ? shim::g_clk[t] : shim::Clock{}});
    view[t] = h.size() - 1;
    shim::g_out << "{\"e\":\"store\",\"t\":" << t << ",\"mo\":\"" << shim::mo_name(mo) << "\",\"val\":" << static_cast<int>(v) << "}\n";
  }
  T exchange(T v, std::memory_order mo = std::memory_order_seq_cst) noexcept
  {
    if (shim::g_thr < 0) { T o = h.back().val; h.back().val = v; return o; }
    shim::yield_point("xchg");
    int const t = shim::g_thr;
    Msg const m = h.back();                         // a read-modify-write reads the last message
    if (shim::is_acq(mo)) shim::g_clk[t] = shim::join(shim::g_clk[t], m.clk);
    ++shim::g_clk[t].c[t];
    // release sequence: the new message carries on what it read; a release RMW adds its own clock
    h.push_back({v, shim::is_rel(mo) ? shim::join(m.clk, shim::g_clk[t]) : m.clk});
    view[t] = h.size() - 1;
    shim::g_out << "{\"e\":\"xchg\",\"t\":" << t << ",\"mo\":\"" << shim::mo_name(mo) << "\",\"old\":" << static_cast<int>(m.val) << "}\n";
    return m.val;
  }
};
} // namespace std

#define atomic verif_atomic
#include "quill/core/Spinlock.h"
#undef atomic

// ------------------------------------------------------------------ logical threads = coroutines
namespace
{
constexpr size_t STACK = 256 * 1024;
struct Co
{
  ucontext_t ctx;
  std::vector<char> stack;
  bool done{false};
  std::string pending{"start"};
};
ucontext_t g_driver;
Co g_co[shim::MAXT];
int g_nthreads = 2, g_rounds = 1;
quill::detail::Spinlock g_lock;

// the protected registry: a plain variable with a happens-before race detector
long g_data = 0;
shim::Clock g_last_w;
shim::Clock g_last_r[shim::MAXT];
int g_holders = 0;

void body(int t)
{
  for (int r = 0; r < g_rounds; ++r)
  {
    g_lock.lock();
    ++g_holders;
    shim::g_out << "{\"e\":\"acquired\",\"t\":" << t << ",\"holders\":" << g_holders << "}\n";
    shim::yield_point("read");
    bool race = !shim::leq(g_last_w, shim::g_clk[t]);
    long const tmp = g_data;
    g_last_r[t] = shim::g_clk[t];
    shim::g_out << "{\"e\":\"read\",\"t\":" << t << ",\"v\":" << tmp << ",\"race\":" << (race ? "true" : "false") << "}\n";
    shim::yield_point("write");
    race = !shim::leq(g_last_w, shim::g_clk[t]);
    for (int u = 0; u < g_nthreads; ++u) if (u != t && !shim::leq(g_last_r[u], shim::g_clk[t])) race = true;
    g_data = tmp + 1;
    ++shim::g_clk[t].c[t];
    g_last_w = shim::g_clk[t];
    shim::g_out << "{\"e\":\"write\",\"t\":" << t << ",\"v\":" << g_data << ",\"race\":" << (race ? "true" : "false") << "}\n";
    --g_holders;
    shim::g_out << "{\"e\":\"releasing\",\"t\":" << t << "}\n";
    g_lock.unlock();
  }
  g_co[t].done = true;
  g_co[t].pending = "done";
  shim::g_out << "{\"e\":\"done\",\"t\":" << t << "}\n";
}
void tramp(int t)
{
  body(t);
  shim::g_thr = -1;
  swapcontext(&g_co[t].ctx, &g_driver);
}
} // namespace

void shim::yield_point(char const* what)
{
  int const t = shim::g_thr;
  g_co[t].pending = what;
  shim::g_thr = -1;
  swapcontext(&g_co[t].ctx, &g_driver);
  // resumed: g_thr and g_choice were set by the driver
}

int main(int argc, char** argv)
{
  if (argc < 3) { std::fprintf(stderr, "usage: h_lock <script> <trace-out>\n"); return 2; }
  std::ifstream in(argv[1]);
  shim::g_out.open(argv[2]);
  std::string line;
  bool started = false;
  while (std::getline(in, line))
  {
    std::stringstream ss(line);
    std::string c;
    ss >> c;
    if (c == "threads")
    {
      std::string k;
      ss >> g_nthreads >> k >> g_rounds;
      if (g_nthreads > shim::MAXT) return 2;
    }
    else if (c == "S")
    {
      if (!started)
      {
        started = true;
        shim::g_out << "{\"e\":\"init\",\"threads\":" << g_nthreads << ",\"rounds\":" << g_rounds << "}\n";
        for (int t = 0; t < g_nthreads; ++t)
        {
          getcontext(&g_co[t].ctx);
          g_co[t].stack.resize(STACK);
          g_co[t].ctx.uc_stack.ss_sp = g_co[t].stack.data();
          g_co[t].ctx.uc_stack.ss_size = STACK;
          g_co[t].ctx.uc_link = &g_driver;
          makecontext(&g_co[t].ctx, reinterpret_cast<void (*)()>(tramp), 1, t);
          // run the thread up to its first yield point (nothing observable happens before it)
          shim::g_thr = t;
          swapcontext(&g_driver, &g_co[t].ctx);
        }
      }
      int t = 0;
      long idx = 0;
      ss >> t >> idx;
      if (t < 0 || t >= g_nthreads || g_co[t].done) { shim::g_out << "{\"e\":\"badstep\",\"t\":" << t << "}\n"; continue; }
      shim::g_out << "{\"e\":\"step\",\"t\":" << t << ",\"pending\":\"" << g_co[t].pending << "\"}\n";
      shim::g_thr = t;
      shim::g_choice = idx;
      swapcontext(&g_driver, &g_co[t].ctx);
      shim::g_choice = 0;
    }
    else if (c == "end") break;
  }
  bool all = true;
  for (int t = 0; t < g_nthreads; ++t) all = all && g_co[t].done;
  shim::g_out << "{\"e\":\"end\",\"data\":" << g_data << ",\"alldone\":" << (all ? "true" : "false") << ",\"badchoice\":"
              << (shim::g_bad_choice ? "true" : "false") << "}\n";
  shim::g_out.close();
  return 0;
}
