// C19 harness: named-argument templates through the real quill code.
//   h_named scan <templates.txt> <out.ndjson>
//       every line of the input is a hex-encoded template; it is given to the REAL
//       MacroMetadata::_contains_named_args and to the REAL (private, static)
//       BackendWorker::_process_named_args_format_message; output: detection flag, positional template, keys.
//   h_named logj <out.ndjson>
//       the magic separator of the implementation (QUILL_MAGIC_SEPARATOR), then the fixed statements compiled through the real LOGJ_/LOG_ macros: case number, template as the macro
//       generates it, argument types.
//   h_named e2e <script.txt> <out.ndjson> <json-file>
//       end to end: each statement is logged through the real frontend (run-time MacroMetadata, whose constructor
//       does the named-args detection, or a compiled macro statement), the real queue, the real backend
//       (ManualBackendWorker::poll) into a recording sink and into the real JsonFileSink. Per statement one ndjson
//       record: what the recording sink saw, the byte range the JSON sink appended to its file, and the oracle
//       (fmtquill::format of the reference positional template / of "{spec}" per argument) for the contract.
// Compile with -fno-access-control. All strings in files are hex encoded ("-" = empty).
#include "quill/Backend.h"
#include "quill/Frontend.h"
#include "quill/LogMacros.h"
#include "quill/Logger.h"
#include "quill/UserClockSource.h"
#include "quill/sinks/JsonSink.h"
#include "quill/sinks/Sink.h"

#include <cstdio>
#include <cstdlib>
#include <deque>
#include <fstream>
#include <iostream>
#include <sstream>
#include <string>
#include <sys/stat.h>
#include <sys/syscall.h>
#include <unistd.h>
#include <vector>

using quill::LogLevel;

// ------------------------------------------------------------------ hex helpers
static std::string hex(std::string_view s)
{
  static char const* d = "0123456789abcdef";
  if (s.empty()) return "-";
  std::string o;
  o.reserve(s.size() * 2);
  for (unsigned char c : s) { o.push_back(d[c >> 4]); o.push_back(d[c & 15]); }
  return o;
}
static std::string unhex(std::string const& h)
{
  if (h == "-") return {};
  std::string o;
  auto v = [](char c) { return c <= '9' ? c - '0' : c - 'a' + 10; };
  for (size_t i = 0; i + 1 < h.size(); i += 2) o.push_back(static_cast<char>((v(h[i]) << 4) | v(h[i + 1])));
  return o;
}
static std::string jq(std::string_view s) { return "\"" + hex(s) + "\""; }

// ------------------------------------------------------------------ scan mode
static int scan_mode(char const* in, char const* out)
{
  std::ifstream f(in);
  FILE* o = std::fopen(out, "w");
  if (!f || !o) return 2;
  std::string line;
  while (std::getline(f, line))
  {
    if (line.empty()) continue;
    std::string const t = unhex(line);
    bool const det = quill::MacroMetadata::_contains_named_args(std::string_view{t});
    auto const res = quill::detail::BackendWorker::_process_named_args_format_message(std::string_view{t});
    std::string s = "{\"t\":" + jq(t) + ",\"det\":" + (det ? "true" : "false") + ",\"pos\":" + jq(res.first) + ",\"keys\":[";
    for (size_t i = 0; i < res.second.size(); ++i)
    {
      if (i) s += ",";
      s += "[" + jq(res.second[i].first) + "," + jq(res.second[i].second) + "]";
    }
    s += "]}\n";
    std::fputs(s.c_str(), o);
  }
  std::fclose(o);
  return 0;
}

// ------------------------------------------------------------------ e2e state
struct Rec
{
  std::string msg, fmt, thread_id, logger, level;
  uint64_t ts;
  bool named_null;
  std::vector<std::pair<std::string, std::string>> named;
};
static std::vector<Rec> g_recs;

struct RecSink : quill::Sink
{
  void write_log(quill::MacroMetadata const* md, uint64_t ts, std::string_view thread_id, std::string_view,
                 std::string const&, std::string_view logger_name, LogLevel, std::string_view lvl_desc, std::string_view,
                 std::vector<std::pair<std::string, std::string>> const* named, std::string_view msg,
                 std::string_view) override
  {
    Rec r;
    r.msg = std::string{msg};
    r.fmt = md->message_format();
    r.thread_id = std::string{thread_id};
    r.logger = std::string{logger_name};
    r.level = std::string{lvl_desc};
    r.ts = ts;
    r.named_null = (named == nullptr);
    if (named) r.named = *named;
    g_recs.push_back(std::move(r));
  }
  void flush_sink() override {}
};

struct Clock : quill::UserClockSource
{
  uint64_t v{0};
  uint64_t now() const override { return v; }
};
static Clock g_clock;
static quill::Logger* g_logger = nullptr;
static quill::ManualBackendWorker* g_mbw = nullptr;
static quill::BackendOptions g_bopts;
static std::shared_ptr<quill::JsonFileSink> g_json;
static std::string g_json_path;
static long g_errs = 0;
static FILE* g_out = nullptr;
static std::deque<std::string> g_strs;
static std::deque<quill::MacroMetadata> g_mds;
static std::string g_tid;
static char const* kLoggerName = "named_lg";

struct Arg
{
  char type;   // 's' std::string, 'i' long long
  std::string s;
  long long i;
};
struct Stmt
{
  long id;
  int lvl;        // LogLevel value
  int jcase;      // -1: run-time metadata; >= 0: compiled macro statement
  std::string tpl, refpos;
  std::vector<std::string> specs;   // per field, incl. the leading ':' (reference parse)
  std::vector<Arg> args;
};

static long file_size(std::string const& p)
{
  struct stat st;
  if (::stat(p.c_str(), &st) != 0) return -1;
  return static_cast<long>(st.st_size);
}

// the oracle the contract refers to: fmt itself, on the REFERENCE positional template / per-argument "{spec}"
template <typename... Ts>
static void oracle(Stmt const& st, bool& ok, std::string& text, std::vector<std::string>& vals, Ts const&... args)
{
  ok = true;
  try { text = fmtquill::format(fmtquill::runtime(st.refpos), args...); }
  catch (std::exception const&) { ok = false; }
  size_t i = 0;
  auto one = [&](auto const& a)
  {
    std::string const f = "{" + (i < st.specs.size() ? st.specs[i] : std::string{}) + "}";
    try { vals.push_back(fmtquill::format(fmtquill::runtime(f), a)); }
    catch (std::exception const&) { ok = false; vals.emplace_back(); }
    ++i;
  };
  (one(args), ...);
}

struct Expect
{
  std::string file, path, line;
};

static void emit(Stmt const& st, Expect const& ex, bool ok, std::string const& text, std::vector<std::string> const& vals,
                 long off0, long off1, long errs)
{
  std::string s = "{\"id\":" + std::to_string(st.id) + ",\"tpl\":" + jq(st.tpl) + ",\"nwrites\":" + std::to_string(g_recs.size());
  Rec const* r = g_recs.empty() ? nullptr : &g_recs.front();
  s += ",\"text\":" + jq(r ? r->msg : std::string{}) + ",\"fmt\":" + jq(r ? r->fmt : std::string{}) + ",\"pairs\":[";
  if (r)
    for (size_t k = 0; k < r->named.size(); ++k)
    {
      if (k) s += ",";
      s += "[" + jq(r->named[k].first) + "," + jq(r->named[k].second) + "]";
    }
  s += "],\"seen\":{\"ts\":\"" + std::to_string(r ? r->ts : 0) + "\",\"thread\":" + jq(r ? r->thread_id : std::string{}) +
    ",\"logger\":" + jq(r ? r->logger : std::string{}) + ",\"level\":" + jq(r ? r->level : std::string{}) + "}";
  s += ",\"exp\":{\"ok\":" + std::string(ok ? "true" : "false") + ",\"text\":" + jq(text) + ",\"vals\":[";
  for (size_t k = 0; k < vals.size(); ++k) { if (k) s += ","; s += jq(vals[k]); }
  s += "]},\"meta\":{\"ts\":\"" + std::to_string(g_clock.v) + "\",\"file\":" + jq(ex.file) + ",\"path\":" + jq(ex.path) +
    ",\"line\":" + jq(ex.line) + ",\"thread\":" + jq(g_tid) + ",\"logger\":" + jq(kLoggerName) +
    ",\"level\":" + jq(g_bopts.log_level_descriptions[static_cast<size_t>(st.lvl)]) + "}";
  s += ",\"joff\":[" + std::to_string(off0) + "," + std::to_string(off1) + "],\"errs\":" + std::to_string(errs) + "}\n";
  std::fputs(s.c_str(), g_out);
}

static void drain()
{
  g_mbw->poll();
  g_json->flush_sink();
}

template <typename... Ts>
static void run_rt(Stmt const& st, Ts const&... args)
{
  bool ok;
  std::string text;
  std::vector<std::string> vals;
  oracle(st, ok, text, vals, args...);
  // run-time MacroMetadata: the constructor runs _contains_named_args on the template
  g_strs.push_back(st.tpl);
  char const* fmt = g_strs.back().c_str();
  g_strs.push_back("/vsrc/named/stmt_" + std::to_string(st.id) + ".cpp:" + std::to_string(1000 + st.id % 9000));
  char const* loc = g_strs.back().c_str();
  g_mds.emplace_back(loc, "h_named_fn", fmt, nullptr, static_cast<LogLevel>(st.lvl), quill::MacroMetadata::Event::Log);
  Expect ex{"stmt_" + std::to_string(st.id) + ".cpp", "/vsrc/named/stmt_" + std::to_string(st.id) + ".cpp",
            std::to_string(1000 + st.id % 9000)};
  g_recs.clear();
  long const e0 = g_errs;
  long const off0 = file_size(g_json_path);
  g_logger->template log_statement<false, false>(LogLevel::None, &g_mds.back(), args...);
  drain();
  long const off1 = file_size(g_json_path);
  emit(st, ex, ok, text, vals, off0, off1, g_errs - e0);
}

// ------------------------------------------------------------------ compiled macro statements (fixed cases)
struct JCase
{
  int k;
  char const* tpl;     // the template as the real macro generates it
  char const* types;
  int lvl;
  char const* names;   // the variable names as written at the call site, typed here independently of quill's macros
};
#define J1_FMT QUILL_GENERATE_NAMED_FORMAT_STRING("jone", alpha)
#define J2_FMT QUILL_GENERATE_NAMED_FORMAT_STRING("jtwo", alpha, beta_2)
#define J3_FMT QUILL_GENERATE_NAMED_FORMAT_STRING("jthree {{x}}", alpha, beta_2, gamma)
#define J4_FMT QUILL_GENERATE_NAMED_FORMAT_STRING("jfour\nsecond line", alpha)
#define J7_FMT QUILL_GENERATE_NAMED_FORMAT_STRING("\njlead\n\nmid", alpha)
static JCase const kJCases[] = {
  {0, QUILL_GENERATE_NAMED_FORMAT_STRING("jzero"), "", static_cast<int>(LogLevel::Info), ""},
  {1, J1_FMT, "s", static_cast<int>(LogLevel::Info), "alpha"},
  {2, J2_FMT, "si", static_cast<int>(LogLevel::Warning), "alpha,beta_2"},
  {3, J3_FMT, "sis", static_cast<int>(LogLevel::Error), "alpha,beta_2,gamma"},
  {4, J4_FMT, "s", static_cast<int>(LogLevel::Info), "alpha"},
  {5, "direct {alpha:>6} and {beta_2:04}", "si", static_cast<int>(LogLevel::Info), "alpha,beta_2"},
  {6, "{{\"k\": \"{alpha}\"}} json looking", "s", static_cast<int>(LogLevel::Info), "alpha"},
  {7, J7_FMT, "s", static_cast<int>(LogLevel::Info), "alpha"},
  // every arity the LOGJ_ family supports (QUILL_GENERATE_NAMED_FORMAT_STRING_1 .. _26), case 100 + arity
  {101, QUILL_GENERATE_NAMED_FORMAT_STRING("arity01", u01), "s", static_cast<int>(LogLevel::Info), "u01"},
  {102, QUILL_GENERATE_NAMED_FORMAT_STRING("arity02", u01, u02), "ss", static_cast<int>(LogLevel::Info), "u01,u02"},
  {103, QUILL_GENERATE_NAMED_FORMAT_STRING("arity03", u01, u02, u03), "sss", static_cast<int>(LogLevel::Info), "u01,u02,u03"},
  {104, QUILL_GENERATE_NAMED_FORMAT_STRING("arity04", u01, u02, u03, u04), "ssss", static_cast<int>(LogLevel::Info), "u01,u02,u03,u04"},
  {105, QUILL_GENERATE_NAMED_FORMAT_STRING("arity05", u01, u02, u03, u04, u05), "ssssi", static_cast<int>(LogLevel::Info), "u01,u02,u03,u04,u05"},
  {106, QUILL_GENERATE_NAMED_FORMAT_STRING("arity06", u01, u02, u03, u04, u05, u06), "ssssis", static_cast<int>(LogLevel::Info), "u01,u02,u03,u04,u05,u06"},
  {107, QUILL_GENERATE_NAMED_FORMAT_STRING("arity07", u01, u02, u03, u04, u05, u06, u07), "ssssiss", static_cast<int>(LogLevel::Info), "u01,u02,u03,u04,u05,u06,u07"},
  {108, QUILL_GENERATE_NAMED_FORMAT_STRING("arity08", u01, u02, u03, u04, u05, u06, u07, u08), "ssssisss", static_cast<int>(LogLevel::Info), "u01,u02,u03,u04,u05,u06,u07,u08"},
  {109, QUILL_GENERATE_NAMED_FORMAT_STRING("arity09", u01, u02, u03, u04, u05, u06, u07, u08, u09), "ssssissss", static_cast<int>(LogLevel::Info), "u01,u02,u03,u04,u05,u06,u07,u08,u09"},
  {110, QUILL_GENERATE_NAMED_FORMAT_STRING("arity10", u01, u02, u03, u04, u05, u06, u07, u08, u09, u10), "ssssissssi", static_cast<int>(LogLevel::Info), "u01,u02,u03,u04,u05,u06,u07,u08,u09,u10"},
  {111, QUILL_GENERATE_NAMED_FORMAT_STRING("arity11", u01, u02, u03, u04, u05, u06, u07, u08, u09, u10, u11), "ssssissssis", static_cast<int>(LogLevel::Info), "u01,u02,u03,u04,u05,u06,u07,u08,u09,u10,u11"},
  {112, QUILL_GENERATE_NAMED_FORMAT_STRING("arity12", u01, u02, u03, u04, u05, u06, u07, u08, u09, u10, u11, u12), "ssssissssiss", static_cast<int>(LogLevel::Info), "u01,u02,u03,u04,u05,u06,u07,u08,u09,u10,u11,u12"},
  {113, QUILL_GENERATE_NAMED_FORMAT_STRING("arity13", u01, u02, u03, u04, u05, u06, u07, u08, u09, u10, u11, u12, u13), "ssssissssisss", static_cast<int>(LogLevel::Info), "u01,u02,u03,u04,u05,u06,u07,u08,u09,u10,u11,u12,u13"},
  {114, QUILL_GENERATE_NAMED_FORMAT_STRING("arity14", u01, u02, u03, u04, u05, u06, u07, u08, u09, u10, u11, u12, u13, u14), "ssssissssissss", static_cast<int>(LogLevel::Info), "u01,u02,u03,u04,u05,u06,u07,u08,u09,u10,u11,u12,u13,u14"},
  {115, QUILL_GENERATE_NAMED_FORMAT_STRING("arity15", u01, u02, u03, u04, u05, u06, u07, u08, u09, u10, u11, u12, u13, u14, u15), "ssssissssissssi", static_cast<int>(LogLevel::Info), "u01,u02,u03,u04,u05,u06,u07,u08,u09,u10,u11,u12,u13,u14,u15"},
  {116, QUILL_GENERATE_NAMED_FORMAT_STRING("arity16", u01, u02, u03, u04, u05, u06, u07, u08, u09, u10, u11, u12, u13, u14, u15, u16), "ssssissssissssis", static_cast<int>(LogLevel::Info), "u01,u02,u03,u04,u05,u06,u07,u08,u09,u10,u11,u12,u13,u14,u15,u16"},
  {117, QUILL_GENERATE_NAMED_FORMAT_STRING("arity17", u01, u02, u03, u04, u05, u06, u07, u08, u09, u10, u11, u12, u13, u14, u15, u16, u17), "ssssissssissssiss", static_cast<int>(LogLevel::Info), "u01,u02,u03,u04,u05,u06,u07,u08,u09,u10,u11,u12,u13,u14,u15,u16,u17"},
  {118, QUILL_GENERATE_NAMED_FORMAT_STRING("arity18", u01, u02, u03, u04, u05, u06, u07, u08, u09, u10, u11, u12, u13, u14, u15, u16, u17, u18), "ssssissssissssisss", static_cast<int>(LogLevel::Info), "u01,u02,u03,u04,u05,u06,u07,u08,u09,u10,u11,u12,u13,u14,u15,u16,u17,u18"},
  {119, QUILL_GENERATE_NAMED_FORMAT_STRING("arity19", u01, u02, u03, u04, u05, u06, u07, u08, u09, u10, u11, u12, u13, u14, u15, u16, u17, u18, u19), "ssssissssissssissss", static_cast<int>(LogLevel::Info), "u01,u02,u03,u04,u05,u06,u07,u08,u09,u10,u11,u12,u13,u14,u15,u16,u17,u18,u19"},
  {120, QUILL_GENERATE_NAMED_FORMAT_STRING("arity20", u01, u02, u03, u04, u05, u06, u07, u08, u09, u10, u11, u12, u13, u14, u15, u16, u17, u18, u19, u20), "ssssissssissssissssi", static_cast<int>(LogLevel::Info), "u01,u02,u03,u04,u05,u06,u07,u08,u09,u10,u11,u12,u13,u14,u15,u16,u17,u18,u19,u20"},
  {121, QUILL_GENERATE_NAMED_FORMAT_STRING("arity21", u01, u02, u03, u04, u05, u06, u07, u08, u09, u10, u11, u12, u13, u14, u15, u16, u17, u18, u19, u20, u21), "ssssissssissssissssis", static_cast<int>(LogLevel::Info), "u01,u02,u03,u04,u05,u06,u07,u08,u09,u10,u11,u12,u13,u14,u15,u16,u17,u18,u19,u20,u21"},
  {122, QUILL_GENERATE_NAMED_FORMAT_STRING("arity22", u01, u02, u03, u04, u05, u06, u07, u08, u09, u10, u11, u12, u13, u14, u15, u16, u17, u18, u19, u20, u21, u22), "ssssissssissssissssiss", static_cast<int>(LogLevel::Info), "u01,u02,u03,u04,u05,u06,u07,u08,u09,u10,u11,u12,u13,u14,u15,u16,u17,u18,u19,u20,u21,u22"},
  {123, QUILL_GENERATE_NAMED_FORMAT_STRING("arity23", u01, u02, u03, u04, u05, u06, u07, u08, u09, u10, u11, u12, u13, u14, u15, u16, u17, u18, u19, u20, u21, u22, u23), "ssssissssissssissssisss", static_cast<int>(LogLevel::Info), "u01,u02,u03,u04,u05,u06,u07,u08,u09,u10,u11,u12,u13,u14,u15,u16,u17,u18,u19,u20,u21,u22,u23"},
  {124, QUILL_GENERATE_NAMED_FORMAT_STRING("arity24", u01, u02, u03, u04, u05, u06, u07, u08, u09, u10, u11, u12, u13, u14, u15, u16, u17, u18, u19, u20, u21, u22, u23, u24), "ssssissssissssissssissss", static_cast<int>(LogLevel::Info), "u01,u02,u03,u04,u05,u06,u07,u08,u09,u10,u11,u12,u13,u14,u15,u16,u17,u18,u19,u20,u21,u22,u23,u24"},
  {125, QUILL_GENERATE_NAMED_FORMAT_STRING("arity25", u01, u02, u03, u04, u05, u06, u07, u08, u09, u10, u11, u12, u13, u14, u15, u16, u17, u18, u19, u20, u21, u22, u23, u24, u25), "ssssissssissssissssissssi", static_cast<int>(LogLevel::Info), "u01,u02,u03,u04,u05,u06,u07,u08,u09,u10,u11,u12,u13,u14,u15,u16,u17,u18,u19,u20,u21,u22,u23,u24,u25"},
  {126, QUILL_GENERATE_NAMED_FORMAT_STRING("arity26", u01, u02, u03, u04, u05, u06, u07, u08, u09, u10, u11, u12, u13, u14, u15, u16, u17, u18, u19, u20, u21, u22, u23, u24, u25, u26), "ssssissssissssissssissssis", static_cast<int>(LogLevel::Info), "u01,u02,u03,u04,u05,u06,u07,u08,u09,u10,u11,u12,u13,u14,u15,u16,u17,u18,u19,u20,u21,u22,u23,u24,u25,u26"},
};

static std::string base_name(std::string const& p)
{
  auto const k = p.rfind('/');
  return k == std::string::npos ? p : p.substr(k + 1);
}

static void run_j(Stmt const& st)
{
  std::string alpha, gamma;
  long long beta_2 = 0;
  auto S = [&](size_t i) { return i < st.args.size() ? st.args[i].s : std::string{}; };
  auto I = [&](size_t i) { return i < st.args.size() ? st.args[i].i : 0ll; };
  // variables of the arity statements: distinct names, position i is a long long when i % 5 == 0
  std::string u01 = S(0);
  std::string u02 = S(1);
  std::string u03 = S(2);
  std::string u04 = S(3);
  long long u05 = I(4);
  std::string u06 = S(5);
  std::string u07 = S(6);
  std::string u08 = S(7);
  std::string u09 = S(8);
  long long u10 = I(9);
  std::string u11 = S(10);
  std::string u12 = S(11);
  std::string u13 = S(12);
  std::string u14 = S(13);
  long long u15 = I(14);
  std::string u16 = S(15);
  std::string u17 = S(16);
  std::string u18 = S(17);
  std::string u19 = S(18);
  long long u20 = I(19);
  std::string u21 = S(20);
  std::string u22 = S(21);
  std::string u23 = S(22);
  std::string u24 = S(23);
  long long u25 = I(24);
  std::string u26 = S(25);
  bool ok = true;
  std::string text;
  std::vector<std::string> vals;
  int line = 0;
  g_recs.clear();
  long const e0 = g_errs;
  long const off0 = file_size(g_json_path);
  // each statement and its __LINE__ are on one source line
  switch (st.jcase)
  {
  case 0: oracle(st, ok, text, vals); line = __LINE__; LOGJ_INFO(g_logger, "jzero"); break;
  case 1: alpha = S(0); oracle(st, ok, text, vals, alpha); line = __LINE__; LOGJ_INFO(g_logger, "jone", alpha); break;
  case 2: alpha = S(0); beta_2 = I(1); oracle(st, ok, text, vals, alpha, beta_2); line = __LINE__; LOGJ_WARNING(g_logger, "jtwo", alpha, beta_2); break;
  case 3: alpha = S(0); beta_2 = I(1); gamma = S(2); oracle(st, ok, text, vals, alpha, beta_2, gamma); line = __LINE__; LOGJ_ERROR(g_logger, "jthree {{x}}", alpha, beta_2, gamma); break;
  case 4: alpha = S(0); oracle(st, ok, text, vals, alpha); line = __LINE__; LOGJ_INFO(g_logger, "jfour\nsecond line", alpha); break;
  case 5: alpha = S(0); beta_2 = I(1); oracle(st, ok, text, vals, alpha, beta_2); line = __LINE__; LOG_INFO(g_logger, "direct {alpha:>6} and {beta_2:04}", alpha, beta_2); break;
  case 6: alpha = S(0); oracle(st, ok, text, vals, alpha); line = __LINE__; LOG_INFO(g_logger, "{{\"k\": \"{alpha}\"}} json looking", alpha); break;
  case 7: alpha = S(0); oracle(st, ok, text, vals, alpha); line = __LINE__; LOGJ_INFO(g_logger, "\njlead\n\nmid", alpha); break;
  case 101: oracle(st, ok, text, vals, u01); line = __LINE__; LOGJ_INFO(g_logger, "arity01", u01); break;
  case 102: oracle(st, ok, text, vals, u01, u02); line = __LINE__; LOGJ_INFO(g_logger, "arity02", u01, u02); break;
  case 103: oracle(st, ok, text, vals, u01, u02, u03); line = __LINE__; LOGJ_INFO(g_logger, "arity03", u01, u02, u03); break;
  case 104: oracle(st, ok, text, vals, u01, u02, u03, u04); line = __LINE__; LOGJ_INFO(g_logger, "arity04", u01, u02, u03, u04); break;
  case 105: oracle(st, ok, text, vals, u01, u02, u03, u04, u05); line = __LINE__; LOGJ_INFO(g_logger, "arity05", u01, u02, u03, u04, u05); break;
  case 106: oracle(st, ok, text, vals, u01, u02, u03, u04, u05, u06); line = __LINE__; LOGJ_INFO(g_logger, "arity06", u01, u02, u03, u04, u05, u06); break;
  case 107: oracle(st, ok, text, vals, u01, u02, u03, u04, u05, u06, u07); line = __LINE__; LOGJ_INFO(g_logger, "arity07", u01, u02, u03, u04, u05, u06, u07); break;
  case 108: oracle(st, ok, text, vals, u01, u02, u03, u04, u05, u06, u07, u08); line = __LINE__; LOGJ_INFO(g_logger, "arity08", u01, u02, u03, u04, u05, u06, u07, u08); break;
  case 109: oracle(st, ok, text, vals, u01, u02, u03, u04, u05, u06, u07, u08, u09); line = __LINE__; LOGJ_INFO(g_logger, "arity09", u01, u02, u03, u04, u05, u06, u07, u08, u09); break;
  case 110: oracle(st, ok, text, vals, u01, u02, u03, u04, u05, u06, u07, u08, u09, u10); line = __LINE__; LOGJ_INFO(g_logger, "arity10", u01, u02, u03, u04, u05, u06, u07, u08, u09, u10); break;
  case 111: oracle(st, ok, text, vals, u01, u02, u03, u04, u05, u06, u07, u08, u09, u10, u11); line = __LINE__; LOGJ_INFO(g_logger, "arity11", u01, u02, u03, u04, u05, u06, u07, u08, u09, u10, u11); break;
  case 112: oracle(st, ok, text, vals, u01, u02, u03, u04, u05, u06, u07, u08, u09, u10, u11, u12); line = __LINE__; LOGJ_INFO(g_logger, "arity12", u01, u02, u03, u04, u05, u06, u07, u08, u09, u10, u11, u12); break;
  case 113: oracle(st, ok, text, vals, u01, u02, u03, u04, u05, u06, u07, u08, u09, u10, u11, u12, u13); line = __LINE__; LOGJ_INFO(g_logger, "arity13", u01, u02, u03, u04, u05, u06, u07, u08, u09, u10, u11, u12, u13); break;
  case 114: oracle(st, ok, text, vals, u01, u02, u03, u04, u05, u06, u07, u08, u09, u10, u11, u12, u13, u14); line = __LINE__; LOGJ_INFO(g_logger, "arity14", u01, u02, u03, u04, u05, u06, u07, u08, u09, u10, u11, u12, u13, u14); break;
  case 115: oracle(st, ok, text, vals, u01, u02, u03, u04, u05, u06, u07, u08, u09, u10, u11, u12, u13, u14, u15); line = __LINE__; LOGJ_INFO(g_logger, "arity15", u01, u02, u03, u04, u05, u06, u07, u08, u09, u10, u11, u12, u13, u14, u15); break;
  case 116: oracle(st, ok, text, vals, u01, u02, u03, u04, u05, u06, u07, u08, u09, u10, u11, u12, u13, u14, u15, u16); line = __LINE__; LOGJ_INFO(g_logger, "arity16", u01, u02, u03, u04, u05, u06, u07, u08, u09, u10, u11, u12, u13, u14, u15, u16); break;
  case 117: oracle(st, ok, text, vals, u01, u02, u03, u04, u05, u06, u07, u08, u09, u10, u11, u12, u13, u14, u15, u16, u17); line = __LINE__; LOGJ_INFO(g_logger, "arity17", u01, u02, u03, u04, u05, u06, u07, u08, u09, u10, u11, u12, u13, u14, u15, u16, u17); break;
  case 118: oracle(st, ok, text, vals, u01, u02, u03, u04, u05, u06, u07, u08, u09, u10, u11, u12, u13, u14, u15, u16, u17, u18); line = __LINE__; LOGJ_INFO(g_logger, "arity18", u01, u02, u03, u04, u05, u06, u07, u08, u09, u10, u11, u12, u13, u14, u15, u16, u17, u18); break;
  case 119: oracle(st, ok, text, vals, u01, u02, u03, u04, u05, u06, u07, u08, u09, u10, u11, u12, u13, u14, u15, u16, u17, u18, u19); line = __LINE__; LOGJ_INFO(g_logger, "arity19", u01, u02, u03, u04, u05, u06, u07, u08, u09, u10, u11, u12, u13, u14, u15, u16, u17, u18, u19); break;
  case 120: oracle(st, ok, text, vals, u01, u02, u03, u04, u05, u06, u07, u08, u09, u10, u11, u12, u13, u14, u15, u16, u17, u18, u19, u20); line = __LINE__; LOGJ_INFO(g_logger, "arity20", u01, u02, u03, u04, u05, u06, u07, u08, u09, u10, u11, u12, u13, u14, u15, u16, u17, u18, u19, u20); break;
  case 121: oracle(st, ok, text, vals, u01, u02, u03, u04, u05, u06, u07, u08, u09, u10, u11, u12, u13, u14, u15, u16, u17, u18, u19, u20, u21); line = __LINE__; LOGJ_INFO(g_logger, "arity21", u01, u02, u03, u04, u05, u06, u07, u08, u09, u10, u11, u12, u13, u14, u15, u16, u17, u18, u19, u20, u21); break;
  case 122: oracle(st, ok, text, vals, u01, u02, u03, u04, u05, u06, u07, u08, u09, u10, u11, u12, u13, u14, u15, u16, u17, u18, u19, u20, u21, u22); line = __LINE__; LOGJ_INFO(g_logger, "arity22", u01, u02, u03, u04, u05, u06, u07, u08, u09, u10, u11, u12, u13, u14, u15, u16, u17, u18, u19, u20, u21, u22); break;
  case 123: oracle(st, ok, text, vals, u01, u02, u03, u04, u05, u06, u07, u08, u09, u10, u11, u12, u13, u14, u15, u16, u17, u18, u19, u20, u21, u22, u23); line = __LINE__; LOGJ_INFO(g_logger, "arity23", u01, u02, u03, u04, u05, u06, u07, u08, u09, u10, u11, u12, u13, u14, u15, u16, u17, u18, u19, u20, u21, u22, u23); break;
  case 124: oracle(st, ok, text, vals, u01, u02, u03, u04, u05, u06, u07, u08, u09, u10, u11, u12, u13, u14, u15, u16, u17, u18, u19, u20, u21, u22, u23, u24); line = __LINE__; LOGJ_INFO(g_logger, "arity24", u01, u02, u03, u04, u05, u06, u07, u08, u09, u10, u11, u12, u13, u14, u15, u16, u17, u18, u19, u20, u21, u22, u23, u24); break;
  case 125: oracle(st, ok, text, vals, u01, u02, u03, u04, u05, u06, u07, u08, u09, u10, u11, u12, u13, u14, u15, u16, u17, u18, u19, u20, u21, u22, u23, u24, u25); line = __LINE__; LOGJ_INFO(g_logger, "arity25", u01, u02, u03, u04, u05, u06, u07, u08, u09, u10, u11, u12, u13, u14, u15, u16, u17, u18, u19, u20, u21, u22, u23, u24, u25); break;
  case 126: oracle(st, ok, text, vals, u01, u02, u03, u04, u05, u06, u07, u08, u09, u10, u11, u12, u13, u14, u15, u16, u17, u18, u19, u20, u21, u22, u23, u24, u25, u26); line = __LINE__; LOGJ_INFO(g_logger, "arity26", u01, u02, u03, u04, u05, u06, u07, u08, u09, u10, u11, u12, u13, u14, u15, u16, u17, u18, u19, u20, u21, u22, u23, u24, u25, u26); break;
  default: return;
  }
  drain();
  long const off1 = file_size(g_json_path);
  Expect ex{base_name(__FILE__), __FILE__, std::to_string(line)};
  emit(st, ex, ok, text, vals, off0, off1, g_errs - e0);
}

// ------------------------------------------------------------------ argument type dispatch (<= 3 arguments)
template <typename... Ts>
static void dispatch(Stmt const& st, size_t i, Ts const&... acc)
{
  if (i == st.args.size()) { run_rt(st, acc...); return; }
  if constexpr (sizeof...(Ts) < 3)
  {
    if (st.args[i].type == 's') dispatch(st, i + 1, acc..., st.args[i].s);
    else dispatch(st, i + 1, acc..., st.args[i].i);
  }
}

static int logj_mode(char const* out)
{
  FILE* o = std::fopen(out, "w");
  if (!o) return 2;
  // constants of the implementation the check concretises value classes from
  std::fprintf(o, "{\"sep\":%s}\n", jq(QUILL_MAGIC_SEPARATOR).c_str());
  for (auto const& c : kJCases)
    std::fprintf(o, "{\"k\":%d,\"tpl\":%s,\"types\":\"%s\",\"lvl\":%d,\"names\":\"%s\"}\n", c.k, jq(c.tpl).c_str(),
                 c.types, c.lvl, c.names);
  std::fclose(o);
  return 0;
}

static int e2e_mode(char const* script, char const* out, char const* jsonfile)
{
  std::ifstream in(script);
  g_out = std::fopen(out, "w");
  if (!in || !g_out) return 2;
  g_json_path = jsonfile;
  g_tid = std::to_string(static_cast<long>(::syscall(SYS_gettid)));
  std::string line;
  bool started = false;
  auto start = [&](bool raw)
  {
    g_bopts.error_notifier = [](std::string const&) { ++g_errs; };
    g_bopts.check_backend_singleton_instance = false;
    if (raw) g_bopts.check_printable_char = {};
    g_mbw = quill::Backend::acquire_manual_backend_worker();
    g_mbw->init(g_bopts);
    auto rec = quill::Frontend::create_or_get_sink<RecSink>("rec");
    quill::FileSinkConfig cfg;
    cfg.set_open_mode('w');
    auto js = quill::Frontend::create_or_get_sink<quill::JsonFileSink>(g_json_path, cfg, quill::FileEventNotifier{});
    g_json = std::static_pointer_cast<quill::JsonFileSink>(js);
    g_logger = quill::Frontend::create_or_get_logger(kLoggerName, {rec, js}, quill::PatternFormatterOptions{},
                                                     quill::ClockSourceType::User, &g_clock);
    g_logger->set_log_level(LogLevel::TraceL3);
    started = true;
  };
  while (std::getline(in, line))
  {
    if (line.empty() || line[0] == '#') continue;
    std::vector<std::string> tok;
    { std::stringstream ss(line); std::string t; while (ss >> t) tok.push_back(t); }
    if (tok[0] == "opt") { start(tok.size() > 1 && tok[1] == "raw"); continue; }
    if (!started) start(false);
    if (tok[0] == "S" || tok[0] == "J")
    {
      // S <id> <lvl> <tpl> <refpos> <k> <spec>*k <n> (<type><hex>)*n      J <id> <case> <refpos> <k> <spec>*k <n> (...)*n
      Stmt st;
      size_t p = 1;
      st.id = std::stol(tok[p++]);
      if (tok[0] == "S") { st.jcase = -1; st.lvl = std::stoi(tok[p++]); st.tpl = unhex(tok[p++]); }
      else
      {
        st.jcase = std::stoi(tok[p++]);
        for (auto const& c : kJCases)
          if (c.k == st.jcase) { st.lvl = c.lvl; st.tpl = c.tpl; }
      }
      st.refpos = unhex(tok[p++]);
      size_t const k = std::stoul(tok[p++]);
      for (size_t i = 0; i < k; ++i) st.specs.push_back(unhex(tok[p++]));
      size_t const n = std::stoul(tok[p++]);
      for (size_t i = 0; i < n; ++i)
      {
        Arg a;
        a.type = tok[p][0];
        a.s = unhex(tok[p].substr(1));
        a.i = a.type == 'i' ? std::stoll(a.s) : 0;
        ++p;
        st.args.push_back(a);
      }
      g_clock.v = 1700000000000000000ull + static_cast<uint64_t>(st.id) * 1000003ull;
      if (st.jcase >= 0) run_j(st);
      else dispatch(st, 0);
    }
  }
  if (started) drain();
  std::fflush(g_out);
  std::fclose(g_out);
  std::_Exit(0);
}

int main(int argc, char** argv)
{
  if (argc >= 4 && std::string{argv[1]} == "scan") return scan_mode(argv[2], argv[3]);
  if (argc >= 3 && std::string{argv[1]} == "logj") return logj_mode(argv[2]);
  if (argc >= 5 && std::string{argv[1]} == "e2e") return e2e_mode(argv[2], argv[3], argv[4]);
  std::fprintf(stderr, "usage: h_named scan|logj|e2e ...\n");
  return 2;
}
