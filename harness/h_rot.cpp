// h_rot: replays scripted histories (Construct / Write(size, ts) / Restart) into the REAL quill::RotatingFileSink
// in a scratch directory and, after every operation, emits the directory listing with every file's content
// (parsed into statement ids) as one ndjson line.  No clock is involved: the constructor takes start_time and
// write_log takes the record timestamp.
//
// usage: h_rot <script> <out.ndjson> <scratch-root>
// script lines:
//   beh <k> tz=<zone name|GMT>     start behaviour k in <scratch-root>/<k> (TZ is set for Timezone::LocalTime)
//   cfg limit=<bytes|0> maxb=<n|-1> over=<0|1> scheme=<I|D|T> freq=<N|D|H|M> interval=<n> daily=<HH:MM> zone=<G|L> clean=<0|1>
//   pre <filename>                 create an unrelated file (marker content)
//   C <a|w> <start_sec>            construct the sink
//   W <id> <size> <ts_sec>         one write_log call with a statement of exactly <size> bytes carrying <id>
//   R <a|w> <start_sec> [1]        restart = destroy + construct; with 1: the ACTIVE file (logfile.log) disappears while no sink
//                                  is open (crash between rename and re-open, or an external tool moved it away)
//   X                              destroy
//   endbeh
// statement text: '<' id ':' size '>' 'x'... '\n'  (exactly size bytes), so whole / in order can be judged from files.
#include "quill/sinks/RotatingFileSink.h"

#include <cstdio>
#include <cstdlib>
#include <cstring>
#include <fstream>
#include <memory>
#include <sstream>
#include <string>
#include <unistd.h>
#include <vector>
#include <algorithm>

// rotation fsyncs the file before asking for its size; durability is not part of C14/C15 and the scratch
// directory is on a real disk, so fsync is made a no-op for speed (fflush still happens).
extern "C" int fsync(int) { return 0; }

namespace fs = quill::fs;
using quill::RotatingFileSink;
using quill::RotatingFileSinkConfig;

static char const* UNREL = "UNRELATED-CONTENT\n";

struct Cfg
{
  size_t limit = 0;
  long maxb = -1;
  int over = 1;
  char scheme = 'I';
  char freq = 'N';
  unsigned interval = 1;
  std::string daily = "00:00";
  char zone = 'G';
  int clean = 1;
  int bw = 0;      // install an identity FileEventNotifier::before_write callback (user callbacks must not change rotation)
};

static std::string jesc(std::string const& s)
{
  std::string o;
  for (unsigned char c : s)
  {
    if (c == '"' || c == '\\') { o += '\\'; o += (char)c; }
    else if (c < 32 || c > 126) { char b[8]; snprintf(b, sizeof b, "\\u%04x", c); o += b; }
    else o += (char)c;
  }
  return o;
}

static std::string kv(std::string const& tok, char const* key)
{
  std::string k = std::string(key) + "=";
  return tok.compare(0, k.size(), k) == 0 ? tok.substr(k.size()) : std::string();
}

static RotatingFileSinkConfig make_cfg(Cfg const& c, char mode)
{
  RotatingFileSinkConfig cfg;
  if (c.limit) cfg.set_rotation_max_file_size(c.limit);
  if (c.maxb >= 0) cfg.set_max_backup_files((uint32_t)c.maxb);
  cfg.set_overwrite_rolled_files(c.over != 0);
  cfg.set_remove_old_files(c.clean != 0);
  cfg.set_rotation_naming_scheme(c.scheme == 'I' ? RotatingFileSinkConfig::RotationNamingScheme::Index
                                 : c.scheme == 'D' ? RotatingFileSinkConfig::RotationNamingScheme::Date
                                                   : RotatingFileSinkConfig::RotationNamingScheme::DateAndTime);
  if (c.freq == 'D') cfg.set_rotation_time_daily(c.daily);
  else if (c.freq == 'H') cfg.set_rotation_frequency_and_interval('H', c.interval);
  else if (c.freq == 'M') cfg.set_rotation_frequency_and_interval('M', c.interval);
  cfg.set_timezone(c.zone == 'G' ? quill::Timezone::GmtTime : quill::Timezone::LocalTime);
  cfg.set_open_mode(mode);
  return cfg;
}

// parse a file into statement ids; bad = 1 if anything but whole statements is found
static void parse_file(std::string const& content, std::vector<long>& ids, int& bad, int& unrel)
{
  bad = 0; unrel = 0;
  if (content == UNREL) { unrel = 1; return; }
  size_t p = 0, n = content.size();
  while (p < n)
  {
    if (content[p] != '<') { bad = 1; return; }
    size_t q = p + 1; long id = 0, sz = 0; int nd = 0;
    while (q < n && isdigit((unsigned char)content[q])) { id = id * 10 + (content[q] - '0'); ++q; ++nd; }
    if (!nd || q >= n || content[q] != ':') { bad = 1; return; }
    ++q; nd = 0;
    while (q < n && isdigit((unsigned char)content[q])) { sz = sz * 10 + (content[q] - '0'); ++q; ++nd; }
    if (!nd || q >= n || content[q] != '>') { bad = 1; return; }
    ++q;
    if (p + (size_t)sz > n || (size_t)sz < q - p + 1) { bad = 1; return; }
    for (size_t r = q; r + 1 < p + (size_t)sz; ++r)
      if (content[r] != 'x') { bad = 1; return; }
    if (content[p + sz - 1] != '\n') { bad = 1; return; }
    ids.push_back(id);
    p += (size_t)sz;
  }
}

static std::string listing(fs::path const& dir)
{
  std::vector<std::string> names;
  for (auto const& e : fs::directory_iterator(dir)) names.push_back(e.path().filename().string());
  std::sort(names.begin(), names.end());
  std::string o = "[";
  bool first = true;
  for (auto const& nm : names)
  {
    std::ifstream f(dir / nm, std::ios::binary);
    std::stringstream ss; ss << f.rdbuf();
    std::string content = ss.str();
    std::vector<long> ids; int bad, unrel;
    parse_file(content, ids, bad, unrel);
    if (!first) o += ",";
    first = false;
    o += "{\"n\":\"" + jesc(nm) + "\",\"sz\":" + std::to_string(content.size()) + ",\"bad\":" + std::to_string(bad) +
      ",\"u\":" + std::to_string(unrel) + ",\"ids\":[";
    for (size_t i = 0; i < ids.size(); ++i) o += (i ? "," : "") + std::to_string(ids[i]);
    o += "]}";
  }
  return o + "]";
}

int main(int argc, char** argv)
{
  if (argc < 4) { fprintf(stderr, "usage: h_rot script out root\n"); return 2; }
  std::ifstream in(argv[1]);
  FILE* out = fopen(argv[2], "w");
  fs::path root = fs::absolute(argv[3]);
  fs::create_directories(root);
  if (!in || !out) return 2;
  std::string line;
  Cfg cfg; long k = -1; int opi = 0;
  fs::path dir;
  std::unique_ptr<RotatingFileSink> sink;
  auto construct = [&](char mode, long long start) -> std::string
  {
    try
    {
      quill::FileEventNotifier fen;
      if (cfg.bw) fen.before_write = [](std::string_view m) { return std::string{m}; };
      sink = std::make_unique<RotatingFileSink>(
        fs::path{"logfile.log"}, make_cfg(cfg, mode), fen,
        std::chrono::system_clock::time_point{std::chrono::seconds{start}});
    }
    catch (std::exception const& e) { sink.reset(); return e.what(); }
    catch (...) { sink.reset(); return "unknown exception"; }
    return "";
  };
  auto emit = [&](char const* op, std::string const& err)
  {
    if (sink)
    {
      try { sink->flush_sink(); } catch (...) {}
    }
    fprintf(out, "{\"k\":%ld,\"i\":%d,\"op\":\"%s\",\"err\":\"%s\",\"files\":%s}\n", k, opi, op, jesc(err).c_str(),
            listing(dir).c_str());
    ++opi;
  };
  while (std::getline(in, line))
  {
    std::istringstream ls(line);
    std::string w; ls >> w;
    if (w.empty() || w[0] == '#') continue;
    if (w == "beh")
    {
      std::string tz; ls >> k >> tz; tz = kv(tz, "tz");
      sink.reset();
      dir = root / std::to_string(k);
      std::error_code ec; fs::remove_all(dir, ec); fs::create_directories(dir);
      if (chdir(dir.c_str()) != 0) return 2;
      setenv("TZ", tz == "GMT" ? "UTC0" : (":" + tz).c_str(), 1);
      tzset();
      opi = 0; cfg = Cfg{};
    }
    else if (w == "cfg")
    {
      std::string t;
      while (ls >> t)
      {
        std::string v;
        if (!(v = kv(t, "limit")).empty()) cfg.limit = std::stoul(v);
        else if (!(v = kv(t, "maxb")).empty()) cfg.maxb = std::stol(v);
        else if (!(v = kv(t, "over")).empty()) cfg.over = std::stoi(v);
        else if (!(v = kv(t, "scheme")).empty()) cfg.scheme = v[0];
        else if (!(v = kv(t, "freq")).empty()) cfg.freq = v[0];
        else if (!(v = kv(t, "interval")).empty()) cfg.interval = (unsigned)std::stoul(v);
        else if (!(v = kv(t, "daily")).empty()) cfg.daily = v;
        else if (!(v = kv(t, "zone")).empty()) cfg.zone = v[0];
        else if (!(v = kv(t, "clean")).empty()) cfg.clean = std::stoi(v);
        else if (!(v = kv(t, "bw")).empty()) cfg.bw = std::stoi(v);
      }
    }
    else if (w == "pre")
    {
      std::string nm; ls >> nm;
      std::ofstream f(dir / nm, std::ios::binary); f << UNREL;
    }
    else if (w == "C" || w == "R")
    {
      std::string m; long long st; int rmactive = 0; ls >> m >> st; ls >> rmactive;
      sink.reset();   // R: destroy first (C: no sink yet)
      if (rmactive) { std::error_code ec; fs::remove(dir / "logfile.log", ec); }
      std::string err = construct(m[0], st);
      emit(w.c_str(), err);
    }
    else if (w == "W")
    {
      long id; size_t sz; long long ts; ls >> id >> sz >> ts;
      std::string head = "<" + std::to_string(id) + ":" + std::to_string(sz) + ">";
      std::string err;
      if (head.size() + 1 > sz) err = "harness: size too small for id";
      else if (!sink) err = "harness: no sink";
      else
      {
        std::string s = head + std::string(sz - head.size() - 1, 'x') + "\n";
        try
        {
          sink->write_log(nullptr, (uint64_t)ts * 1000000000ull, std::string_view{}, std::string_view{}, std::string{},
                          std::string_view{}, quill::LogLevel::Info, "INFO", "I", nullptr, "", s);
        }
        catch (std::exception const& e) { err = e.what(); }
        catch (...) { err = "unknown exception"; }
      }
      emit("W", err);
    }
    else if (w == "X")
    {
      sink.reset();
      emit("X", "");
    }
    else if (w == "endbeh")
    {
      sink.reset();
      if (chdir(root.c_str()) != 0) return 2;
      std::error_code ec; fs::remove_all(dir, ec);
      fflush(out);
    }
  }
  sink.reset();
  fclose(out);
  return 0;
}
