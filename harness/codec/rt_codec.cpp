// Runtime of the C04/C11 harness, compiled once and linked with every generated unit: interposed allocator,
// backend (manual worker) service loop on the main thread, caller thread, record output.
#define VH_MAIN
#include "quill/Backend.h"
#include "h_codec.h"

// a user-defined FrontendOptions type: its threads own a separate thread context / queue
struct CustomFOpts
{
  static constexpr quill::QueueType queue_type = quill::QueueType::BoundedBlocking;
  static constexpr size_t initial_queue_capacity = 64u * 1024u;
  static constexpr uint32_t blocking_queue_retry_interval_ns = 800;
  static constexpr size_t unbounded_queue_max_capacity = 2ull * 1024u * 1024u * 1024u;
  static constexpr quill::HugePagesPolicy huge_pages_policy = quill::HugePagesPolicy::Never;
};
using CustomFrontend = quill::FrontendImpl<CustomFOpts>;
using CustomLogger = quill::LoggerImpl<CustomFOpts>;

namespace vh
{
static CustomLogger* g_custom_logger = nullptr;
static quill::ManualBackendWorker* g_mbw = nullptr;
static quill::BackendOptions g_bopts;
static std::shared_ptr<RecSink> g_sink;
static std::vector<std::string> g_errors;
static H g_hh;

static void jstr_list(FILE* f, std::vector<std::string> const& v)
{
  std::fputc('[', f);
  for (size_t i = 0; i < v.size(); ++i) { std::fprintf(f, "%s\"%s\"", i ? "," : "", v[i].c_str()); }
  std::fputc(']', f);
}

static void flush_events(H& h)
{
  int const n = std::min(g_nev.load(), kMaxEv);
  for (int i = 0; i < n; ++i)
  {
    Ev const& e = g_ev[i];
    switch (e.kind)
    {
    case kLogBegin:
      std::fprintf(h.out, "{\"e\":\"LogBegin\",\"t\":%d,\"case\":%ld,\"si\":%ld,\"rep\":%ld,\"fits\":%ld}\n", e.t, e.a, e.b / 2, e.b % 2, e.c);
      break;
    case kLogEnd:
      std::fprintf(h.out, "{\"e\":\"LogEnd\",\"t\":%d,\"case\":%ld,\"si\":%ld,\"rep\":%ld}\n", e.t, e.a, e.b / 2, e.b % 2);
      break;
    case kAlloc: std::fprintf(h.out, "{\"e\":\"Alloc\",\"t\":%d,\"n\":%ld,\"case\":%d}\n", e.t, e.a, h.case_id); break;
    case kMmap: std::fprintf(h.out, "{\"e\":\"Mmap\",\"t\":%d,\"n\":%ld,\"case\":%d}\n", e.t, e.a, h.case_id); break;
    case kFormat:
      std::fprintf(h.out, "{\"e\":\"Format\",\"t\":%d,\"kind\":\"%s\",\"case\":%d}\n", e.t, e.a ? "direct" : "deferred", h.case_id);
      break;
    case kThreadStart: std::fprintf(h.out, "{\"e\":\"ThreadStart\",\"t\":%d}\n", e.t); break;
    case kPreallocate: std::fprintf(h.out, "{\"e\":\"Preallocate\",\"t\":%d}\n", e.t); break;
    default: break;
    }
  }
  g_nev.store(0);
}

void H::note_begin()
{
  std::fprintf(out, "{\"e\":\"CaseBegin\",\"case\":%d,\"rep\":%d,\"t\":%d}\n", case_id, rep, tl_tid);
  std::fflush(out);
}

void H::end()
{
  // sink messages are attributed to statements in order: one message per statement (the format strings never end
  // in a newline and per-line splitting is switched off on the logger)
  flush_events(*this);
  auto& msgs = g_sink->msgs;
  size_t k = 0;
  size_t pi = 0;
  for (size_t i = 0; i < stmts.size(); ++i)
  {
    StmtRec& s = stmts[i];
    std::fprintf(out,
                 "{\"e\":\"Stmt\",\"case\":%d,\"si\":%d,\"rep\":%d,\"t\":%d,\"reserved\":%ld,\"hdr\":%ld,\"cb\":%ld,\"ca\":%ld,"
                 "\"fits\":%ld,\"nodechg\":%d,\"tp\":[%ld,%ld,%ld,%ld],\"mut\":%d,\"orafail\":%d,\"hasstr\":%d,",
                 case_id, s.si, rep, tl_tid, s.reserved, hdr_bytes, s.cache_before, s.cache_after, s.fits, s.node_changed,
                 s.tsize, s.twritten, s.tconsumed, s.tcache, s.mutated, s.orafail, s.has_str);
    if (k < msgs.size()) { std::fprintf(out, "\"got\":\"%s\",", hex(msgs[k]).c_str()); ++k; }
    else { std::fprintf(out, "\"got\":null,"); }
    // reference sanitiser (independent of the code under test): every byte the configured check_printable_char rejects becomes
    // its two-digit upper-case hex value "\xHH" (the byte's unsigned value), every other byte stays
    auto sanitise = [](std::string c) {
      if (!g_bopts.check_printable_char) return c;
      static char const hexd[] = "0123456789ABCDEF";
      std::string o;
      for (char ch : c)
      {
        if (g_bopts.check_printable_char(ch)) { o.push_back(ch); continue; }
        unsigned const u = static_cast<unsigned char>(ch);
        o += "\\x";
        o.push_back(hexd[(u >> 4) & 0xF]);
        o.push_back(hexd[u & 0xF]);
      }
      return o;
    };
    std::vector<std::string> raw, san, alt;
    for (auto const& e : s.strict_raw) { raw.push_back(hex(e)); san.push_back(hex(sanitise(e))); }
    for (auto const& e : s.exp_raw) { alt.push_back(hex(sanitise(e))); }
    std::fprintf(out, "\"raw\":");
    jstr_list(out, raw);
    std::fprintf(out, ",\"exp\":");
    jstr_list(out, san);
    std::fprintf(out, ",\"alt\":");
    jstr_list(out, alt);
    std::fprintf(out, "}\n");
    while (pi < polled_upto.size() && polled_upto[pi] == i + 1)
    {
      std::fprintf(out, "{\"e\":\"Poll\",\"case\":%d,\"rep\":%d,\"t\":%d,\"consumed\":%ld,\"nodechg\":%d}\n", case_id, rep, tl_tid,
                   polled_bytes[pi], polled_nodechg[pi]);
      ++pi;
    }
  }
  if (k != msgs.size()) { std::fprintf(out, "{\"e\":\"Extra\",\"case\":%d,\"rep\":%d,\"n\":%zu}\n", case_id, rep, msgs.size() - k); }
  msgs.clear();
  polled_upto.clear();
  polled_bytes.clear();
  polled_nodechg.clear();
  std::fflush(out);
}

// drain without measuring a queue (the requester may not own a default-options context)
static void poll_plain(H& h)
{
  std::unique_lock<std::mutex> lk(h.m);
  h.req_ctx = nullptr;
  ++h.req;
  h.cv.notify_all();
  h.cv.wait(lk, [&] { return h.done == h.req; });
}

// C11: "after a thread's first log call (or preallocate())" holds for every Frontend instantiation: a fresh thread calls
// preallocate() of a CUSTOM frontend and then logs through that frontend's logger (case id -3; events only)
static void custom_frontend_scenario(H& h, int tid)
{
  std::thread th([&h, tid] {
    tl_tid = tid;
    ev(kThreadStart);
    CustomFrontend::preallocate();
    ev(kPreallocate);
    std::string const long_string(40, 'c');
    char const* cs = "c-string";
    for (int k = 0; k < 3; ++k)
    {
      ev(kLogBegin, -3, k * 2, 1);
      tl_window = 1;
      if (k == 0) { LOG_INFO(g_custom_logger, "custom frontend"); }
      else if (k == 1) { LOG_INFO(g_custom_logger, "custom frontend {} {}", 42, long_string); }
      else { LOG_WARNING(g_custom_logger, "custom frontend {} {}", cs, 2.5); }
      tl_window = 0;
      ev(kLogEnd, -3, k * 2);
    }
    poll_plain(h);
  });
  th.join();
  h.case_id = -3;
  flush_events(h);
  g_sink->msgs.clear();
}

static void caller_main(H& h, std::vector<int> const& only)
{
  tl_tid = 1;
  ev(kThreadStart);
  // first call of this thread: creates the thread context (may allocate); a second one calibrates the header size
  for (int k = 0; k < 2; ++k)
  {
    h.begin(-1, k);
    h.stmt(0, 0);
    h.log_begin(0);
    LOG_INFO(h.logger, "calibrate");
    h.log_end();
    if (k == 1) { h.hdr_bytes = h.cur().reserved; }
    h.expect_strict([] { return std::string{"calibrate"}; });
    h.poll_now();
    h.end();
  }
  custom_frontend_scenario(h, 2);
  int next_tid = 3;
  for (int i = 0; i < g_ncases; ++i)
  {
    CaseEntry const& c = g_cases[i];
    if (!only.empty() && std::find(only.begin(), only.end(), c.id) == only.end()) { continue; }
    if (c.fresh == 0) { c.fn(h); }
    else
    {
      int const tid = next_tid++;
      std::thread th([&h, &c, tid] {
        tl_tid = tid;
        ev(kThreadStart);
        if (c.fresh == 2)
        {
          Frontend::preallocate();
          tl_has_ctx = true;
          ev(kPreallocate);
        }
        c.fn(h);
      });
      th.join();
    }
  }
  std::unique_lock<std::mutex> lk(h.m);
  h.quit = true;
  h.cv.notify_all();
}
} // namespace vh

int main(int argc, char** argv)
{
  using namespace vh;
  if (argc < 2) { std::fprintf(stderr, "usage: %s <out.ndjson> [case ids...]\n", argv[0]); return 2; }
  H& h = g_hh;
  h.out = std::fopen(argv[1], "w");
  if (!h.out) { return 2; }
  std::vector<int> only;
  for (int i = 2; i < argc; ++i) { only.push_back(std::atoi(argv[i])); }
  tl_tid = 0;

  g_mbw = quill::Backend::acquire_manual_backend_worker();
  g_bopts.error_notifier = [](std::string const& s) { g_errors.push_back(s); };
  g_mbw->init(g_bopts);
  g_sink = std::static_pointer_cast<RecSink>(Frontend::create_or_get_sink<RecSink>("rec"));
  quill::PatternFormatterOptions pfo;
  pfo.format_pattern = "%(message)";
  pfo.add_metadata_to_multi_line_logs = false;
  h.logger = Frontend::create_or_get_logger("L", g_sink, pfo, quill::ClockSourceType::System);
  h.logger->set_log_level(quill::LogLevel::TraceL3);
  g_custom_logger = CustomFrontend::create_or_get_logger("LC", g_sink, pfo, quill::ClockSourceType::System);

  // constants of the code under test (read from the real objects, never typed in)
  {
    quill::detail::SizeCacheVector c;
    std::vector<int> ev0;
    std::string es;
    std::optional<int> eo;
    quill::utility::StringRef sr{es};
    std::fprintf(h.out,
                 "{\"e\":\"Consts\",\"cachecap\":%zu,\"level\":%zu,\"count\":%zu,\"len\":%zu,\"opt\":%zu,\"sref\":%zu,"
                 "\"ptr\":%zu,\"sz_dtriv\":%zu,\"sz_dnon\":%zu,\"al_dnon\":%zu,\"sz_dalloc\":%zu,\"al_dalloc\":%zu,"
                 "\"qcap\":%zu,\"ncases\":%d}\n",
                 c.capacity(), sizeof(quill::LogLevel), quill::Codec<std::vector<int>>::compute_encoded_size(c, ev0),
                 quill::Codec<std::string>::compute_encoded_size(c, es), quill::Codec<std::optional<int>>::compute_encoded_size(c, eo),
                 quill::Codec<quill::utility::StringRef>::compute_encoded_size(c, sr), sizeof(void const*), sizeof(vt::DTriv),
                 sizeof(vt::DNon), alignof(vt::DNon), sizeof(vt::DAlloc), alignof(vt::DAlloc),
                 static_cast<size_t>(FOpts::initial_queue_capacity), g_ncases);
  }
  std::fprintf(h.out, "{\"e\":\"Backend\",\"t\":0}\n");

  std::thread caller([&] { caller_main(h, only); });
  // backend service loop: one drain per request
  {
    std::unique_lock<std::mutex> lk(h.m);
    for (;;)
    {
      h.cv.wait(lk, [&] { return h.quit || h.req > h.done; });
      if (h.req > h.done)
      {
        // consumed bytes = consumer reader-position delta over the drain of the requesting thread's queue
        // (the requester is blocked in poll_now(), so its context is alive)
        if (h.req_ctx == nullptr) { g_mbw->poll(); }
        else
        {
          QPos const p0 = H::rpos(h.req_ctx);
          g_mbw->poll();
          QPos const p1 = H::rpos(h.req_ctx);
          h.poll_node_changed = (p1.node != p0.node);
          h.poll_consumed = static_cast<long>(p1.node == p0.node ? p1.pos - p0.pos : p1.pos);
        }
        h.done = h.req;
        h.cv.notify_all();
        continue;
      }
      if (h.quit) { break; }
    }
  }
  caller.join();
  g_mbw->poll();
  std::fprintf(h.out, "{\"e\":\"End\",\"alloc_inside\":%ld,\"alloc_outside\":%ld,\"ev_lost\":%ld,\"errors\":%zu}\n",
               g_alloc_inside.load(), g_alloc_outside.load(), g_ev_lost.load(), g_errors.size());
  for (auto const& e : g_errors) { std::fprintf(h.out, "{\"e\":\"BackendError\",\"text\":\"%s\"}\n", hex(e).c_str()); }
  std::fclose(h.out);
  std::fflush(nullptr);
  _exit(0);
}
