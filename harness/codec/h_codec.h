// Harness runtime for the generated C04/C11 translation units (tools/gen_codec.py).
// One process = main thread as the (manual) backend worker + one long-lived caller thread that executes the
// generated cases + short-lived fresh threads for the first-call/preallocate cases.
// Everything recorded here is an observation of the real quill code:
//   Stmt   : reserved bytes (producer writer-position delta), size-cache length before/after, text received by
//            the sink vs the call-site fmtquill::format texts (hex), the three passes run directly on a scratch
//            buffer (size / written / consumed / cache pushes)
//   Poll   : consumed bytes (consumer reader-position delta) of one drain
//   LogBegin/LogEnd/Alloc/Mmap/Format/ThreadStart/Preallocate : the C11 event vocabulary (thread = logical index)
#pragma once
#include <array>
#include <atomic>
#include <chrono>
#include <condition_variable>
#include <cstdint>
#include <cstdio>
#include <cstdlib>
#include <cstring>
#include <deque>
#include <filesystem>
#include <forward_list>
#include <functional>
#include <limits>
#include <list>
#include <map>
#include <mutex>
#include <optional>
#include <set>
#include <string>
#include <string_view>
#include <thread>
#include <tuple>
#include <unordered_map>
#include <unordered_set>
#include <utility>
#include <vector>

#include <dlfcn.h>
#include <malloc.h>
#include <sys/mman.h>

#include "quill/DeferredFormatCodec.h"
#include "quill/DirectFormatCodec.h"
#include "quill/Frontend.h"
#include "quill/LogMacros.h"
#include "quill/Logger.h"
#include "quill/StringRef.h"
#include "quill/sinks/Sink.h"
#include "quill/std/Array.h"
#include "quill/std/Chrono.h"
#include "quill/std/Deque.h"
#include "quill/std/FilesystemPath.h"
#include "quill/std/ForwardList.h"
#include "quill/std/List.h"
#include "quill/std/Map.h"
#include "quill/std/Optional.h"
#include "quill/std/Pair.h"
#include "quill/std/Set.h"
#include "quill/std/Tuple.h"
#include "quill/std/UnorderedMap.h"
#include "quill/std/UnorderedSet.h"
#include "quill/std/Vector.h"

#include "quill/bundled/fmt/chrono.h"
#include "quill/bundled/fmt/format.h"
#include "quill/bundled/fmt/ranges.h"
#include "quill/bundled/fmt/std.h"

namespace vh
{
// ------------------------------------------------------------------------------------------ events
enum EvKind : int
{
  kLogBegin = 1, kLogEnd, kAlloc, kMmap, kFormat, kThreadStart, kPreallocate
};
struct Ev
{
  int kind;
  int t;
  long a, b, c;
};
constexpr int kMaxEv = 1 << 16;
inline Ev g_ev[kMaxEv];
inline std::atomic<int> g_nev{0};
inline std::atomic<long> g_ev_lost{0};
inline std::atomic<long> g_alloc_outside{0};
inline std::atomic<long> g_alloc_inside{0};

inline thread_local int tl_tid = -1;   // logical thread: 0 backend, 1 caller, 2.. fresh threads
inline thread_local int tl_window = 0; // inside LogBegin..LogEnd on this thread
inline thread_local int tl_quiet = 0;  // call-site oracle / direct three-pass measurement: not part of the execution

inline void ev(int kind, long a = 0, long b = 0, long c = 0)
{
  int const i = g_nev.fetch_add(1, std::memory_order_relaxed);
  if (i < kMaxEv) { g_ev[i] = Ev{kind, tl_tid, a, b, c}; }
  else { g_ev_lost.fetch_add(1, std::memory_order_relaxed); }
}
inline void on_alloc(size_t n, int kind)
{
  if (tl_window && !tl_quiet) { g_alloc_inside.fetch_add(1, std::memory_order_relaxed); ev(kind, static_cast<long>(n)); }
  else { g_alloc_outside.fetch_add(1, std::memory_order_relaxed); }
}
} // namespace vh

// ------------------------------------------------------------------------------------------ interposed allocator
#ifdef VH_MAIN
extern "C"
{
  void* __libc_malloc(size_t);
  void* __libc_calloc(size_t, size_t);
  void* __libc_realloc(void*, size_t);
  void* __libc_memalign(size_t, size_t);
  void __libc_free(void*);

  void* malloc(size_t n)
  {
    void* p = __libc_malloc(n);
    vh::on_alloc(n, vh::kAlloc);
    return p;
  }
  void* calloc(size_t a, size_t b)
  {
    void* p = __libc_calloc(a, b);
    vh::on_alloc(a * b, vh::kAlloc);
    return p;
  }
  void* realloc(void* q, size_t n)
  {
    void* p = __libc_realloc(q, n);
    vh::on_alloc(n, vh::kAlloc);
    return p;
  }
  void* memalign(size_t al, size_t n)
  {
    void* p = __libc_memalign(al, n);
    vh::on_alloc(n, vh::kAlloc);
    return p;
  }
  void* aligned_alloc(size_t al, size_t n)
  {
    void* p = __libc_memalign(al, n);
    vh::on_alloc(n, vh::kAlloc);
    return p;
  }
  int posix_memalign(void** out, size_t al, size_t n)
  {
    void* p = __libc_memalign(al, n);
    vh::on_alloc(n, vh::kAlloc);
    if (!p) { return 12; }
    *out = p;
    return 0;
  }
  void free(void* p)
  {
    if (p)
    {
      // poison: a record that still refers to freed argument storage reads 0xDD at decode time
      std::memset(p, 0xDD, malloc_usable_size(p));
      __libc_free(p);
    }
  }
  void* mmap(void* a, size_t l, int pr, int fl, int fd, off_t o) noexcept
  {
    using fn_t = void* (*)(void*, size_t, int, int, int, off_t);
    static fn_t real = reinterpret_cast<fn_t>(dlsym(RTLD_NEXT, "mmap"));
    vh::on_alloc(l, vh::kMmap);
    return real(a, l, pr, fl, fd, o);
  }
}
#endif

// ------------------------------------------------------------------------------------------ user types
namespace vt
{
enum class E32 : uint32_t { A = 0, B = 7, Z = 0xFFFFFFFFu };
enum E8 : uint8_t { e8a = 0, e8b = 200, e8z = 255 };

struct DTriv // trivially copyable deferred-format type
{
  int32_t a;
  double b;
  char c[6];
};
struct DNon // deferred-format, not trivially copyable, copy does not allocate
{
  int32_t a{0};
  int64_t b{0};
  DNon() = default;
  DNon(int32_t x, int64_t y) : a(x), b(y) {}
  DNon(DNon const& o) : a(o.a), b(o.b) {}
  DNon(DNon&& o) noexcept : a(o.a), b(o.b) {}
  DNon& operator=(DNon const& o) { a = o.a; b = o.b; return *this; }
  ~DNon() { a = -77; b = -77; }
};
struct DAlloc // deferred-format, copy constructor allocates
{
  std::string s;
  std::vector<int> v;
};
struct DThrow // deferred-format type whose copy constructor throws: a log call that fails after its size pass
{
  int32_t a{0};
  DThrow() = default;
  DThrow(DThrow const&) { throw std::runtime_error("copy-throws"); }
  DThrow& operator=(DThrow const&) = default;
};
struct Dir // direct-format type
{
  int32_t a;
  std::string s;
};
inline bool operator<(Dir const& x, Dir const& y) { return std::tie(x.a, x.s) < std::tie(y.a, y.s); }
} // namespace vt

namespace vh
{
inline void fmt_event(int kind /*0 deferred 1 direct*/)
{
  if (!tl_quiet) { ev(kFormat, kind); }
}
} // namespace vh

template <>
struct fmtquill::formatter<vt::E32>
{
  constexpr auto parse(format_parse_context& ctx) { return ctx.begin(); }
  auto format(vt::E32 e, format_context& ctx) const
  {
    return fmtquill::format_to(ctx.out(), "E32:{}", static_cast<uint32_t>(e));
  }
};
template <>
struct fmtquill::formatter<vt::E8>
{
  constexpr auto parse(format_parse_context& ctx) { return ctx.begin(); }
  auto format(vt::E8 e, format_context& ctx) const
  {
    return fmtquill::format_to(ctx.out(), "E8:{}", static_cast<unsigned>(e));
  }
};
template <>
struct fmtquill::formatter<vt::DTriv>
{
  constexpr auto parse(format_parse_context& ctx) { return ctx.begin(); }
  auto format(vt::DTriv const& d, format_context& ctx) const
  {
    vh::fmt_event(0);
    return fmtquill::format_to(ctx.out(), "DT<{},{},{}>", d.a, d.b,
                               std::string_view{d.c, quill::detail::safe_strnlen(d.c, sizeof(d.c))});
  }
};
template <>
struct fmtquill::formatter<vt::DNon>
{
  constexpr auto parse(format_parse_context& ctx) { return ctx.begin(); }
  auto format(vt::DNon const& d, format_context& ctx) const
  {
    vh::fmt_event(0);
    return fmtquill::format_to(ctx.out(), "DN<{},{}>", d.a, d.b);
  }
};
template <>
struct fmtquill::formatter<vt::DThrow>
{
  constexpr auto parse(format_parse_context& ctx) { return ctx.begin(); }
  auto format(vt::DThrow const& d, format_context& ctx) const { return fmtquill::format_to(ctx.out(), "DT<{}>", d.a); }
};
template <>
struct fmtquill::formatter<vt::DAlloc>
{
  constexpr auto parse(format_parse_context& ctx) { return ctx.begin(); }
  auto format(vt::DAlloc const& d, format_context& ctx) const
  {
    vh::fmt_event(0);
    return fmtquill::format_to(ctx.out(), "DA<{},{}>", d.s, d.v);
  }
};
template <>
struct fmtquill::formatter<vt::Dir>
{
  constexpr auto parse(format_parse_context& ctx) { return ctx.begin(); }
  auto format(vt::Dir const& d, format_context& ctx) const
  {
    vh::fmt_event(1);
    return fmtquill::format_to(ctx.out(), "DR<{},{}>", d.a, d.s);
  }
};
template <> struct quill::Codec<vt::DTriv> : quill::DeferredFormatCodec<vt::DTriv> {};
template <> struct quill::Codec<vt::DNon> : quill::DeferredFormatCodec<vt::DNon> {};
template <> struct quill::Codec<vt::DAlloc> : quill::DeferredFormatCodec<vt::DAlloc> {};
template <> struct quill::Codec<vt::Dir> : quill::DirectFormatCodec<vt::Dir> {};
template <> struct quill::Codec<vt::DThrow> : quill::DeferredFormatCodec<vt::DThrow> {};

namespace vh
{
// ------------------------------------------------------------------------------------------ oracle-side containers
// The iteration order of an unordered container is unspecified and is not preserved by the copy the backend
// rebuilds; the call-site oracle therefore formats the same elements in each possible order. These are only ever
// formatted by fmtquill at the call site (never logged): fmt renders them exactly like a set / map.
template <class T, class = void> struct has_mapped0 : std::false_type {};
template <class T> struct has_mapped0<T, std::void_t<typename T::mapped_type>> : std::true_type {};
template <class T> inline constexpr bool has_mapped_v = has_mapped0<T>::value;
template <class T>
struct PermSet : std::vector<T>
{
  using key_type = T;
  using std::vector<T>::vector;
};
template <class K, class V>
struct PermMap : std::vector<std::pair<K, V>>
{
  using key_type = K;
  using mapped_type = V;
  using std::vector<std::pair<K, V>>::vector;
};
template <class C, class E>
C perm2(int swap, E const& e0, E const& e1)
{
  C c;
  if (swap) { c.push_back(e1); c.push_back(e0); }
  else { c.push_back(e0); c.push_back(e1); }
  return c;
}
// which order does the oracle use for a two-element unordered container?
//   alt >= 0 : enumeration of the possible orders (bit `bit` of alt)     -> classification "only the order differs"
//   alt <  0 : the STRICT call-site order = the iteration order of the source container itself
inline int sw(int alt, int bit, int strict_swap) { return alt < 0 ? strict_swap : ((alt >> bit) & 1); }
// does the source container iterate its SECOND listed element first?
template <class C, class K>
int first_is(C const& c, K const& k1)
{
  auto it = c.begin();
  if (it == c.end()) { return 0; }
  if constexpr (has_mapped_v<C>) { return it->first == k1; }
  else { return *it == k1; }
}
template <class C, class E>
C perm1(E const& e0)
{
  C c;
  c.push_back(e0);
  return c;
}

// call-site meaning of a char[N] argument: up to the first NUL, at most N bytes (an unterminated array has no
// defined call-site formatting; the repository's StringLoggingTest expects exactly its N bytes)
template <size_t N>
std::string_view view_n(char const (&a)[N])
{
  void const* z = std::memchr(a, 0, N);
  return std::string_view{a, z ? static_cast<size_t>(static_cast<char const*>(z) - a) : N};
}

// ------------------------------------------------------------------------------------------ mutation of arguments
template <class T> struct is_tuple : std::false_type {};
template <class... A> struct is_tuple<std::tuple<A...>> : std::true_type {};
template <class T> struct is_pair : std::false_type {};
template <class A, class B> struct is_pair<std::pair<A, B>> : std::true_type {};
template <class T> struct is_optional : std::false_type {};
template <class A> struct is_optional<std::optional<A>> : std::true_type {};
template <class T> struct is_stdarray : std::false_type {};
template <class A, size_t N> struct is_stdarray<std::array<A, N>> : std::true_type {};
template <class T> struct is_chrono : std::false_type {};
template <class R, class P> struct is_chrono<std::chrono::duration<R, P>> : std::true_type {};
template <class C, class D> struct is_chrono<std::chrono::time_point<C, D>> : std::true_type {};
template <class T, class = void> struct has_mapped : std::false_type {};
template <class T> struct has_mapped<T, std::void_t<typename T::mapped_type>> : std::true_type {};
template <class T, class = void> struct has_key : std::false_type {};
template <class T> struct has_key<T, std::void_t<typename T::key_type>> : std::true_type {};

template <class T>
void mutate(T& x)
{
  if constexpr (std::is_same_v<T, bool>) { x = !x; }
  else if constexpr (std::is_arithmetic_v<T>) { x = (x == static_cast<T>(42)) ? static_cast<T>(43) : static_cast<T>(42); }
  else if constexpr (std::is_enum_v<T>) { x = static_cast<T>(static_cast<std::underlying_type_t<T>>(x) ^ 5); }
  else if constexpr (std::is_same_v<T, void const*>) { x = &x; }
  else if constexpr (std::is_same_v<T, char const*> || std::is_same_v<T, char*>) { x = "MUTATED-POINTER"; }
  else if constexpr (std::is_array_v<T>)
  {
    if constexpr (std::is_same_v<std::remove_extent_t<T>, char>) { std::memset(x, 'Z', sizeof(x)); x[sizeof(x) - 1] = 0; }
    else { for (auto& e : x) { mutate(e); } }
  }
  else if constexpr (std::is_same_v<T, std::string>)
  {
    for (auto& c : x) { c = 'Z'; }
    x.assign(x.size() + 40, 'Q'); // forces the old buffer to be released (and poisoned)
  }
  else if constexpr (std::is_same_v<T, std::string_view>) { x = std::string_view{"MUTATED-VIEW"}; }
  else if constexpr (std::is_same_v<T, quill::utility::StringRef>) { /* by-reference by design: never mutated */ }
  else if constexpr (std::is_same_v<T, std::filesystem::path>) { x = std::filesystem::path{"/mutated/after/the/call/zzzzzzzzzzzzzzzzzzzzzzzzzzzzzz"}; }
  else if constexpr (is_chrono<T>::value) { x += typename T::duration{1}; }
  else if constexpr (std::is_same_v<T, vt::DTriv>) { x.a ^= 0x55; x.b = -x.b + 1; std::memset(x.c, 'Z', sizeof(x.c)); }
  else if constexpr (std::is_same_v<T, vt::DNon>) { x.a ^= 0x55; x.b += 9; }
  else if constexpr (std::is_same_v<T, vt::DAlloc>) { mutate(x.s); x.v.assign(3, -1); }
  else if constexpr (std::is_same_v<T, vt::Dir>) { x.a ^= 0x55; mutate(x.s); }
  else if constexpr (is_pair<T>::value)
  {
    if constexpr (!std::is_const_v<typename T::first_type>) { mutate(x.first); }
    mutate(x.second);
  }
  else if constexpr (is_tuple<T>::value) { std::apply([](auto&... e) { (mutate(e), ...); }, x); }
  else if constexpr (is_optional<T>::value) { if (x) { mutate(*x); } x.reset(); }
  else if constexpr (is_stdarray<T>::value) { for (auto& e : x) { mutate(e); } }
  else if constexpr (has_mapped<T>::value) { for (auto& kv : x) { mutate(kv.second); } x.clear(); }
  else if constexpr (has_key<T>::value) { x.clear(); }
  else // sequence containers
  {
    for (auto& e : x) { mutate(e); }
    x.clear();
  }
}

// backing storage of C strings / string_views / char arrays of one statement
struct Backing
{
  std::deque<std::vector<char>> bufs;
  char const* add(char const* p, size_t n, bool terminate = true)
  {
    bufs.emplace_back(p, p + n);
    if (terminate) { bufs.back().push_back('\0'); bufs.back().push_back('\0'); }
    return bufs.back().data();
  }
  std::string_view view(char const* p, size_t n) { return std::string_view{add(p, n), n}; }
  void scribble()
  {
    // overwrite every byte that belonged to an argument (keeps one trailing terminator so that a stray
    // strlen stays inside the buffer)
    for (auto& b : bufs) { if (b.size() > 1) { std::memset(b.data(), 'Z', b.size() - 1); } }
  }
};

// ------------------------------------------------------------------------------------------ output helpers
inline std::string hex(std::string_view s)
{
  static constexpr char d[] = "0123456789abcdef";
  if (s.size() > 3000)
  {
    uint64_t h = 1469598103934665603ull;
    for (unsigned char c : s) { h = (h ^ c) * 1099511628211ull; }
    return "#" + std::to_string(s.size()) + ":" + std::to_string(h);
  }
  std::string o;
  o.reserve(s.size() * 2);
  for (unsigned char c : s) { o.push_back(d[c >> 4]); o.push_back(d[c & 15]); }
  return o;
}

struct RecSink : quill::Sink
{
  std::vector<std::string> msgs;
  void write_log(quill::MacroMetadata const*, uint64_t, std::string_view, std::string_view, std::string const&,
                 std::string_view, quill::LogLevel, std::string_view, std::string_view,
                 std::vector<std::pair<std::string, std::string>> const*, std::string_view log_message,
                 std::string_view) override
  {
    msgs.emplace_back(log_message);
  }
  void flush_sink() override {}
};

using Frontend = quill::Frontend;
using Logger = quill::Logger;
using FOpts = quill::FrontendOptions;

struct QPos
{
  void const* node;
  uint64_t pos;
};

struct StmtRec
{
  int si{0};
  long reserved{-1}, cache_before{-1}, cache_after{-1}, fits{-1}, tsize{-1}, twritten{-1}, tconsumed{-1}, tcache{-1};
  int mutated{0}, orafail{0}, has_str{0}, node_changed{0};
  std::vector<std::string> strict_raw; // THE call-site text (source containers' own iteration order), unsanitised
  std::vector<std::string> exp_raw;    // the same with every possible order of two-element unordered containers
};

inline thread_local bool tl_has_ctx = false; // this thread already owns a quill thread context

struct H
{
  FILE* out{nullptr};
  Logger* logger{nullptr};
  // rendezvous with the backend (main) thread
  std::mutex m;
  std::condition_variable cv;
  long req{0}, done{0};
  bool quit{false};
  quill::detail::ThreadContext* req_ctx{nullptr};
  long poll_consumed{-1};
  int poll_node_changed{0};
  // per case
  int case_id{-1}, rep{0};
  std::vector<StmtRec> stmts;
  long hdr_bytes{-1};
  quill::detail::SizeCacheVector tp_cache;
  std::vector<std::byte> tp_buf;
  std::vector<size_t> polled_upto; // stmts.size() at each drain
  std::vector<long> polled_bytes;
  std::vector<int> polled_nodechg;
  QPos w0{};

  // ---- queue observation (private members, -fno-access-control)
  static quill::detail::ThreadContext* ctx() { return quill::detail::get_local_thread_context<FOpts>(); }
  static QPos wpos()
  {
    auto& q = ctx()->get_spsc_queue_union().unbounded_spsc_queue;
    return QPos{q._producer, q._producer->bounded_queue._writer_pos};
  }
  static QPos rpos(quill::detail::ThreadContext* c)
  {
    auto& q = c->get_spsc_queue_union().unbounded_spsc_queue;
    return QPos{q._consumer, q._consumer->bounded_queue._reader_pos};
  }
  static long free_bytes()
  {
    auto& bq = ctx()->get_spsc_queue_union().unbounded_spsc_queue._producer->bounded_queue;
    return static_cast<long>(bq._capacity) -
      static_cast<long>(bq._writer_pos - bq._atomic_reader_pos.load(std::memory_order_acquire));
  }
  static long cache_len() { return static_cast<long>(ctx()->get_conditional_arg_size_cache().size()); }

  // ---- case protocol (caller thread)
  void note_begin(); // persists a CaseBegin marker, so that a crash can be attributed (runtime TU)
  void begin(int id, int r)
  {
    case_id = id;
    rep = r;
    stmts.clear();
    note_begin();
  }
  StmtRec& cur() { return stmts.back(); }
  void stmt(int si, int has_str)
  {
    stmts.emplace_back();
    cur().si = si;
    cur().has_str = has_str;
  }
  // call-site oracle; never part of the measured execution
  template <class Fn>
  void expect_strict(Fn&& f)
  {
    ++tl_quiet;
    try { cur().strict_raw.push_back(f()); }
    catch (std::exception const&) { cur().orafail = 1; }
    --tl_quiet;
  }
  template <class Fn>
  void expect_alt(Fn&& f)
  {
    ++tl_quiet;
    try { cur().exp_raw.push_back(f()); }
    catch (std::exception const&) {}
    --tl_quiet;
  }
  // the three passes of the real codec, run directly on a scratch buffer
  template <class... A>
  void three_pass(A const&... a)
  {
    using namespace quill::detail;
    ++tl_quiet;
    size_t const sz = compute_encoded_size_and_cache_string_lengths(tp_cache, a...);
    cur().tcache = static_cast<long>(tp_cache.size()); // cache length after the size pass
    if (tp_buf.size() < sz + 4096) { tp_buf.resize(sz + 4096); }
    std::memset(tp_buf.data(), 0xA5, std::min(tp_buf.size(), sz + 4096));
    std::byte* w = tp_buf.data();
    encode(w, tp_cache, a...);
    std::byte* r = tp_buf.data();
    quill::DynamicFormatArgStore store;
    decode_and_store_args<remove_cvref_t<A>...>(r, store);
    cur().tsize = static_cast<long>(sz);
    cur().twritten = static_cast<long>(w - tp_buf.data());
    cur().tconsumed = static_cast<long>(r - tp_buf.data());
    --tl_quiet;
  }
  void log_begin(long extra_bytes)
  {
    if (tl_has_ctx)
    {
      cur().cache_before = cache_len();
      long const need = hdr_bytes + (cur().tsize > 0 ? cur().tsize : 0) + extra_bytes;
      cur().fits = (hdr_bytes < 0) ? 1 : (free_bytes() >= need ? 1 : 0);
      w0 = wpos();
    }
    else { cur().fits = 1; } // first call of the thread: nothing may be touched before it
    ev(kLogBegin, case_id, cur().si * 2 + rep, cur().fits);
    tl_window = 1;
  }
  void log_end()
  {
    tl_window = 0;
    ev(kLogEnd, case_id, cur().si * 2 + rep);
    if (tl_has_ctx)
    {
      QPos const w1 = wpos();
      cur().node_changed = (w1.node != w0.node);
      cur().reserved = static_cast<long>(w1.node == w0.node ? w1.pos - w0.pos : w1.pos);
    }
    tl_has_ctx = true;
    cur().cache_after = cache_len();
  }
  void mutated() { cur().mutated = 1; }
  // history: an earlier log call of this thread that did NOT complete - its size pass cached two string lengths, then the copy
  // of an argument threw. Not judged itself; the statement after it is.
  void history()
  {
    if (!tl_has_ctx) return;
    ++tl_quiet;
    try
    {
      vt::DThrow const boom;
      char const* stale = "a-string-whose-length-was-cached-by-a-call-that-failed";
      LOG_INFO(logger, "hist {} {} {}", stale, "second", boom);
    }
    catch (std::exception const&) {}
    --tl_quiet;
  }

  // ask the backend thread to drain this thread's queue; records the consumed bytes
  void poll_now()
  {
    quill::detail::ThreadContext* const mine = ctx();
    {
      std::unique_lock<std::mutex> lk(m);
      req_ctx = mine;
      ++req;
      cv.notify_all();
      cv.wait(lk, [&] { return done == req; });
    }
    polled_upto.push_back(stmts.size());
    polled_bytes.push_back(poll_consumed);
    polled_nodechg.push_back(poll_node_changed);
  }
  void end(); // writes the records of this case (runtime TU)
};

// ------------------------------------------------------------------------------------------ case table
using CaseFn = void (*)(H&);
struct CaseEntry
{
  int id;
  CaseFn fn;
  int fresh; // 0: runs on the long-lived caller thread; 1: fresh thread, first call; 2: fresh thread, preallocate() first
};

// call-site formatting with a run-time format string (keeps the compile time of the generated units down)
template <class... A>
std::string F(char const* f, A const&... a)
{
  return fmtquill::vformat(fmtquill::string_view{f}, fmtquill::make_format_args(a...));
}
} // namespace vh

extern vh::CaseEntry const g_cases[];
extern int const g_ncases;
