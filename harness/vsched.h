// Deterministic token scheduler, virtual clock, libc interposition and event log shared by the
// system-level harnesses. Only one logical thread runs at a time; every event is appended to one
// totally ordered log. Non-logical threads (the driver) pass through to the real libc.
#pragma once
#include <atomic>
#include <condition_variable>
#include <cstdarg>
#include <cstdint>
#include <cstdio>
#include <cstdlib>
#include <cstring>
#include <dlfcn.h>
#include <functional>
#include <map>
#include <mutex>
#include <sched.h>
#include <sstream>
#include <string>
#include <thread>
#include <time.h>
#include <unistd.h>
#include <vector>

namespace vs
{
// ------------------------------------------------------------------ event log
inline std::mutex g_evm;
inline std::vector<std::string> g_events;
inline std::string g_outpath;
inline std::atomic<uint64_t> g_seq{0};

inline std::string jesc(std::string_view s)
{
  std::string o;
  o.reserve(s.size() + 2);
  for (unsigned char c : s)
  {
    if (c == '"' || c == '\\') { o += '\\'; o += static_cast<char>(c); }
    else if (c < 0x20 || c >= 0x7f) { char b[8]; snprintf(b, sizeof b, "\\u%04x", c); o += b; }
    else o += static_cast<char>(c);
  }
  return o;
}

struct Ev
{
  std::ostringstream os;
  bool first{true};
  explicit Ev(char const* name) { os << "{\"e\":\"" << name << "\""; }
  Ev& s(char const* k, std::string_view v) { os << ",\"" << k << "\":\"" << jesc(v) << "\""; return *this; }
  Ev& i(char const* k, long long v) { os << ",\"" << k << "\":" << v; return *this; }
  Ev& u(char const* k, unsigned long long v) { os << ",\"" << k << "\":" << v; return *this; }
  Ev& b(char const* k, bool v) { os << ",\"" << k << "\":" << (v ? "true" : "false"); return *this; }
  Ev& raw(char const* k, std::string const& v) { os << ",\"" << k << "\":" << v; return *this; }
  ~Ev()
  {
    os << "}";
    std::lock_guard<std::mutex> l{g_evm};
    g_events.push_back(os.str());
  }
};

inline void dump_events()
{
  std::lock_guard<std::mutex> l{g_evm};
  FILE* f = g_outpath.empty() ? stdout : fopen(g_outpath.c_str(), "w");
  if (!f) return;
  for (auto const& e : g_events) { fputs(e.c_str(), f); fputc('\n', f); }
  if (f != stdout) fclose(f); else fflush(f);
}

[[noreturn]] inline void die(char const* why, int code = 3)
{
  { Ev e{"Abort"}; e.s("why", why); }
  dump_events();
  _exit(code);
}

// ------------------------------------------------------------------ logical threads
struct LT
{
  std::string name;
  std::thread th;
  enum St { IDLE, RUN, PARKED, DONE } st{IDLE};
  std::function<void()> op;
  bool quit{false};
  std::string why;
  bool yield_ts{false};   // park at hook TS_TAKEN
  bool fine{false};       // backend: park at every backend hook
  void* ctx{nullptr};     // ThreadContext* captured on the thread
  long sleeps{0};
};

inline std::mutex g_m;
inline std::condition_variable g_cv;
inline thread_local LT* tl_self = nullptr;

inline void worker_main(LT* lt, std::function<void()> on_exit = {})
{
  tl_self = lt;
  std::unique_lock<std::mutex> l{g_m};
  while (true)
  {
    g_cv.wait(l, [&] { return lt->st == LT::RUN || lt->quit; });
    if (lt->quit && lt->st != LT::RUN) break;
    auto op = std::move(lt->op);
    l.unlock();
    op();
    l.lock();
    lt->st = LT::IDLE;
    g_cv.notify_all();
  }
  l.unlock();
  if (on_exit) on_exit();
}

inline void (*g_on_park)(LT*) = nullptr;   // harness hook run on the logical thread right before it parks

// called on a logical thread: hand the token back to the driver and wait to be resumed
inline void park(char const* why)
{
  LT* lt = tl_self;
  if (!lt) return;
  if (g_on_park) g_on_park(lt);
  std::unique_lock<std::mutex> l{g_m};
  lt->st = LT::PARKED;
  lt->why = why;
  g_cv.notify_all();
  g_cv.wait(l, [&] { return lt->st == LT::RUN; });
}

// driver: give the token to lt (optionally with a new op) until it parks or finishes its op
inline LT::St drive(LT* lt, std::function<void()> op = {})
{
  std::unique_lock<std::mutex> l{g_m};
  if (op)
  {
    if (lt->st != LT::IDLE) return lt->st;   // caller error, reported by the interpreter
    lt->op = std::move(op);
  }
  else if (lt->st != LT::PARKED) return lt->st;
  lt->st = LT::RUN;
  g_cv.notify_all();
  g_cv.wait(l, [&] { return lt->st != LT::RUN; });
  return lt->st;
}

inline void quit_and_join(LT* lt)
{
  {
    std::unique_lock<std::mutex> l{g_m};
    lt->quit = true;
    g_cv.notify_all();
  }
  if (lt->th.joinable()) lt->th.join();
  lt->st = LT::DONE;
}

// ------------------------------------------------------------------ virtual time
// unit = 1000 ns, so a grace period of 1 us is one unit. Every read by a logical thread advances time
// by one unit (clock model of DESIGN 3.2: ordered reads are strictly increasing).
inline constexpr uint64_t kBaseNs = 1700000000ull * 1000000000ull;
inline constexpr uint64_t kUnitNs = 1000;
inline std::atomic<uint64_t> g_vunits{1000};
inline bool g_virtual_time = true;

inline uint64_t vnow_ns(bool advance)
{
  uint64_t u = advance ? (g_vunits.fetch_add(1) + 1) : g_vunits.load();
  return kBaseNs + u * kUnitNs;
}
} // namespace vs

// ------------------------------------------------------------------ libc interposition
extern "C" {
typedef int (*clock_gettime_fn)(clockid_t, struct timespec*);
inline int real_clock_gettime(clockid_t c, struct timespec* ts)
{
  static clock_gettime_fn f = reinterpret_cast<clock_gettime_fn>(dlsym(RTLD_NEXT, "clock_gettime"));
  return f(c, ts);
}

int clock_gettime(clockid_t c, struct timespec* ts)
{
  if (!vs::g_virtual_time || (c != CLOCK_REALTIME && c != CLOCK_MONOTONIC)) return real_clock_gettime(c, ts);
  uint64_t ns = vs::vnow_ns(vs::tl_self != nullptr);
  ts->tv_sec = static_cast<time_t>(ns / 1000000000ull);
  ts->tv_nsec = static_cast<long>(ns % 1000000000ull);
  return 0;
}

int nanosleep(const struct timespec* req, struct timespec* rem)
{
  if (vs::tl_self)
  {
    vs::tl_self->sleeps++;
    vs::park("sleep");
    return 0;
  }
  typedef int (*fn)(const struct timespec*, struct timespec*);
  static fn f = reinterpret_cast<fn>(dlsym(RTLD_NEXT, "nanosleep"));
  return f(req, rem);
}

int clock_nanosleep(clockid_t c, int flags, const struct timespec* req, struct timespec* rem)
{
  if (vs::tl_self)
  {
    vs::tl_self->sleeps++;
    vs::park("sleep");
    return 0;
  }
  typedef int (*fn)(clockid_t, int, const struct timespec*, struct timespec*);
  static fn f = reinterpret_cast<fn>(dlsym(RTLD_NEXT, "clock_nanosleep"));
  return f(c, flags, req, rem);
}

int sched_yield(void)
{
  if (vs::tl_self)
  {
    vs::tl_self->sleeps++;
    vs::park("yield");
    return 0;
  }
  typedef int (*fn)(void);
  static fn f = reinterpret_cast<fn>(dlsym(RTLD_NEXT, "sched_yield"));
  return f();
}
}
