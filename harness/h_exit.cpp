// Thread-exit harness: the REAL quill::detail::ThreadContext (its _valid flag) and its REAL bounded SPSC queue on a shim
// std::atomic that implements the release/acquire model of spec/ExitRA.tla: every atomic object has a history of messages
// [value, clock published (release), writer's clock at the store]; a load may read any message not older than what the
// reader already read of that object and not older than the newest message whose store happens-before the reader; the
// script chooses which one. Two logical threads: P (a frontend thread that logs and exits) and B (the backend's reads and
// its clean-up predicate `!ctx->is_valid() && queue.empty()`), interleaved at the granularity of those functions.
//   h_exit <script> <trace-out>
// script: init cap=N [unbounded] | P write | P grow | P exit | B read <iw> | B check <iv> <iw> [<in>] | end   (1-based, 0 = latest)
// "unbounded": the context owns an UnboundedSPSCQueue; `P grow` logs a statement that does not fit (a second buffer is linked
// through `next`); the backend's reads stay on the first buffer (it has not switched yet), its check is the real empty().
#include <algorithm>
#include <cstdint>
#include <cstdio>
#include <cstdlib>
#include <cstring>
#include <deque>
#include <fstream>
#include <map>
#include <sstream>
#include <string>
#include <vector>
#include <atomic>

#include "shim_ra.h"

#include "quill/backend/ThreadUtilities.h"
#define atomic verif_atomic
#include "quill/core/ThreadContextManager.h"
#undef atomic

using quill::detail::ThreadContext;

int main(int argc, char** argv)
{
  if (argc < 3) { std::fprintf(stderr, "usage: h_exit <script> <trace-out>\n"); return 2; }
  std::ifstream in(argv[1]);
  shim::g_out.open(argv[2]);
  std::unique_ptr<ThreadContext> tc;
  quill::detail::UnboundedSPSCQueue::Node* node1 = nullptr;
  bool unbounded = false;
  long committed = 0, consumed = 0;
  constexpr size_t REC = 8;
  std::string line;
  while (std::getline(in, line))
  {
    std::stringstream ss(line);
    std::string c, op;
    ss >> c;
    if (c == "init")
    {
      std::string kv;
      size_t cap = 64;
      unbounded = false;
      while (ss >> kv)
      {
        if (kv.rfind("cap=", 0) == 0) cap = std::stoul(kv.substr(4));
        else if (kv == "unbounded") unbounded = true;
      }
      shim::g_thr = -1;
      shim::g_names.clear();
      shim::g_clk[0] = shim::g_clk[1] = shim::Clock{};
      shim::g_choices.clear();
      committed = consumed = 0;
      tc = std::make_unique<ThreadContext>(unbounded ? quill::QueueType::UnboundedBlocking : quill::QueueType::BoundedBlocking, cap,
                                           unbounded ? cap * 64 : cap, quill::HugePagesPolicy::Never);
      if (unbounded)
      {
        auto& uq = tc->get_spsc_queue_union().unbounded_spsc_queue;
        node1 = uq._consumer;
        shim::g_names[&node1->bounded_queue._atomic_writer_pos] = "W";
        shim::g_names[&node1->bounded_queue._atomic_reader_pos] = "R";
        shim::g_names[&node1->next] = "N";
      }
      else
      {
        auto& q0 = tc->get_spsc_queue_union().bounded_spsc_queue;
        shim::g_names[&q0._atomic_writer_pos] = "W";
        shim::g_names[&q0._atomic_reader_pos] = "R";
      }
      shim::g_names[&tc->_valid] = "V";
      shim::g_out << "{\"e\":\"init\",\"cap\":" << cap << ",\"unbounded\":" << (unbounded ? "true" : "false") << "}\n";
    }
    else if (c == "P")
    {
      ss >> op;
      shim::g_thr = 0;
      if (op == "write" || op == "grow")
      {
        // `grow`: larger than the first buffer, so _handle_full_queue links a second one (with room for the small records after it)
        size_t const n = (op == "grow") ? 64 + REC : REC;
        std::byte* p = unbounded ? tc->get_spsc_queue_union().unbounded_spsc_queue.prepare_write(n)
                                 : tc->get_spsc_queue_union().bounded_spsc_queue.prepare_write(n);
        if (!p) { shim::g_out << "{\"e\":\"full\"}\n"; continue; }
        std::memset(p, 0x5a, n);
        if (unbounded) tc->get_spsc_queue_union().unbounded_spsc_queue.finish_and_commit_write(n);
        else
        {
          tc->get_spsc_queue_union().bounded_spsc_queue.finish_write(n);
          tc->get_spsc_queue_union().bounded_spsc_queue.commit_write();
        }
        ++committed;
        shim::g_out << "{\"e\":\"committed\",\"n\":" << committed << "}\n";
      }
      else if (op == "exit")
      {
        tc->mark_invalid();
        shim::g_out << "{\"e\":\"exited\"}\n";
      }
    }
    else if (c == "B")
    {
      ss >> op;
      shim::g_thr = 1;
      // the backend's reads: the first buffer (bounded queue, or the unbounded queue's first node before any switch)
      auto& q = unbounded ? node1->bounded_queue : tc->get_spsc_queue_union().bounded_spsc_queue;
      if (op == "read")
      {
        long iw = 0;
        ss >> iw;
        shim::g_choices.clear();
        shim::g_choices["W"].push_back(iw);
        long n = 0;
        // consume everything the chosen writer position makes visible, without a second load of the position
        while (true)
        {
          if (n > 0 && q._writer_pos_cache == q._reader_pos) break;
          std::byte* p = q.prepare_read();
          if (!p) break;
          q.finish_read(REC);
          ++n;
        }
        if (n > 0) q.commit_read();
        consumed += n;
        shim::g_choices.clear();
        shim::g_out << "{\"e\":\"read\",\"n\":" << n << ",\"consumed\":" << consumed << "}\n";
      }
      else if (op == "check")
      {
        long iv = 0, iw = 0, inx = 0;
        ss >> iv >> iw >> inx;
        shim::g_choices.clear();
        shim::g_choices["V"].push_back(iv);
        shim::g_choices["W"].push_back(iw);
        shim::g_choices["N"].push_back(inx);
        // the predicate of BackendWorker::_cleanup_invalidated_thread_contexts (the transit buffer is empty here: everything
        // read has been processed)
        bool const valid = tc->is_valid();
        bool const empty = !valid && (unbounded ? tc->get_spsc_queue_union().unbounded_spsc_queue.empty() : q.empty());
        shim::g_choices.clear();
        shim::g_out << "{\"e\":\"check\",\"valid\":" << (valid ? "true" : "false") << ",\"empty\":" << (empty ? "true" : "false") << "}\n";
        if (!valid && empty)
          shim::g_out << "{\"e\":\"reclaim\",\"committed\":" << committed << ",\"consumed\":" << consumed << "}\n";
      }
    }
    else if (c == "end") break;
  }
  shim::g_out << "{\"e\":\"end\",\"badchoice\":" << (shim::g_bad_choice ? "true" : "false") << "}\n";
  shim::g_out.close();
  std::_Exit(0);
}
