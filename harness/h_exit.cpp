// Thread-exit harness: the REAL quill::detail::ThreadContext (its _valid flag) and its REAL bounded SPSC queue on a shim
// std::atomic that implements the release/acquire model of spec/ExitRA.tla: every atomic object has a history of messages
// [value, clock published (release), writer's clock at the store]; a load may read any message not older than what the
// reader already read of that object and not older than the newest message whose store happens-before the reader; the
// script chooses which one. Two logical threads: P (a frontend thread that logs and exits) and B (the backend's reads and
// its clean-up predicate `!ctx->is_valid() && queue.empty()`), interleaved at the granularity of those functions.
//   h_exit <script> <trace-out>
// script: init cap=N | P write | P exit | B read <iw> | B check <iv> <iw> | end      (indexes 1-based, 0 = latest)
#include <algorithm>
#include <cstdint>
#include <cstdio>
#include <cstdlib>
#include <cstring>
#include <deque>
#include <fstream>
#include <map>
#include <sstream>
#include <string>
#include <vector>
#include <atomic>

namespace shim
{
constexpr int NT = 2;
struct Clock { unsigned c[NT]{}; };
inline Clock join(Clock a, Clock const& b) { for (int i = 0; i < NT; ++i) a.c[i] = std::max(a.c[i], b.c[i]); return a; }
inline bool leq(Clock const& a, Clock const& b) { for (int i = 0; i < NT; ++i) if (a.c[i] > b.c[i]) return false; return true; }
inline int g_thr = -1;                       // -1: set-up (constructor stores precede both threads)
inline Clock g_clk[NT];
inline std::deque<long> g_choices;           // message indexes for the next loads of named objects (0 = latest)
inline bool g_bad_choice = false;
inline std::ofstream g_out;
inline std::map<void const*, std::string> g_names;
inline bool is_acq(std::memory_order m) { return m == std::memory_order_acquire || m == std::memory_order_acq_rel || m == std::memory_order_seq_cst || m == std::memory_order_consume; }
inline bool is_rel(std::memory_order m) { return m == std::memory_order_release || m == std::memory_order_acq_rel || m == std::memory_order_seq_cst; }
inline char const* mo_name(std::memory_order m)
{
  switch (m)
  {
  case std::memory_order_relaxed: return "rlx";
  case std::memory_order_acquire: case std::memory_order_consume: return "acq";
  case std::memory_order_release: return "rel";
  default: return "ar";
  }
}
inline std::string name_of(void const* p) { auto it = g_names.find(p); return it == g_names.end() ? std::string{} : it->second; }
}

namespace std
{
template <typename T>
struct verif_atomic
{
  struct Msg { T val; shim::Clock rel; shim::Clock ev; };
  std::vector<Msg> h;
  size_t view[shim::NT]{};
  verif_atomic() noexcept { h.push_back({T{}, {}, {}}); }
  verif_atomic(T v) noexcept { h.push_back({v, {}, {}}); }
  verif_atomic(verif_atomic const&) = delete;
  verif_atomic& operator=(verif_atomic const&) = delete;
  static long long as_ll(T v)
  {
    if constexpr (std::is_pointer_v<T>) return reinterpret_cast<long long>(v);
    else return static_cast<long long>(v);
  }
  size_t lo(int t) const
  {
    size_t m = view[t];
    for (size_t j = 0; j < h.size(); ++j) if (shim::leq(h[j].ev, shim::g_clk[t]) && j > m) m = j;
    return m;
  }
  T load(std::memory_order mo = std::memory_order_seq_cst) const noexcept
  {
    auto* self = const_cast<verif_atomic*>(this);
    if (shim::g_thr < 0) return h.back().val;
    int const t = shim::g_thr;
    std::string const nm = shim::name_of(this);
    size_t idx = h.size() - 1;
    if ((nm == "W" || nm == "V") && !shim::g_choices.empty())     // the script chooses for the writer position and the flag
    {
      long c = shim::g_choices.front();
      shim::g_choices.pop_front();
      if (c > 0)
      {
        idx = static_cast<size_t>(c - 1);
        if (idx >= h.size() || idx < lo(t)) { shim::g_bad_choice = true; idx = h.size() - 1; }
      }
    }
    self->view[t] = idx;
    if (shim::is_acq(mo)) shim::g_clk[t] = shim::join(shim::g_clk[t], h[idx].rel);
    if (!nm.empty())
      shim::g_out << "{\"e\":\"acc\",\"t\":" << t << ",\"obj\":\"" << nm << "\",\"op\":\"load\",\"mo\":\"" << shim::mo_name(mo)
                  << "\",\"idx\":" << (idx + 1) << ",\"val\":" << as_ll(h[idx].val) << ",\"n\":" << h.size() << "}\n";
    return h[idx].val;
  }
  void push(T v, bool rel, shim::Clock const& carry)
  {
    int const t = shim::g_thr;
    ++shim::g_clk[t].c[t];
    h.push_back({v, rel ? shim::join(carry, shim::g_clk[t]) : carry, shim::g_clk[t]});
    view[t] = h.size() - 1;
  }
  void store(T v, std::memory_order mo = std::memory_order_seq_cst) noexcept
  {
    if (shim::g_thr < 0) { h.back().val = v; return; }
    push(v, shim::is_rel(mo), shim::Clock{});
    std::string const nm = shim::name_of(this);
    if (!nm.empty())
      shim::g_out << "{\"e\":\"acc\",\"t\":" << shim::g_thr << ",\"obj\":\"" << nm << "\",\"op\":\"store\",\"mo\":\"" << shim::mo_name(mo)
                  << "\",\"idx\":" << h.size() << ",\"val\":" << as_ll(v) << "}\n";
  }
  template <typename F>
  T rmw(F f, std::memory_order mo) noexcept
  {
    if (shim::g_thr < 0) { T o = h.back().val; h.back().val = f(o); return o; }
    int const t = shim::g_thr;
    Msg const m = h.back();
    if (shim::is_acq(mo)) shim::g_clk[t] = shim::join(shim::g_clk[t], m.rel);
    push(f(m.val), shim::is_rel(mo), m.rel);
    return m.val;
  }
  operator T() const noexcept { return load(); }
  T operator=(T v) noexcept { store(v); return v; }
  T exchange(T v, std::memory_order mo = std::memory_order_seq_cst) noexcept { return rmw([v](T) { return v; }, mo); }
  T fetch_add(T v, std::memory_order mo = std::memory_order_seq_cst) noexcept { return rmw([v](T o) { return static_cast<T>(o + v); }, mo); }
  T fetch_sub(T v, std::memory_order mo = std::memory_order_seq_cst) noexcept { return rmw([v](T o) { return static_cast<T>(o - v); }, mo); }
};
} // namespace std

#include "quill/backend/ThreadUtilities.h"
#define atomic verif_atomic
#include "quill/core/ThreadContextManager.h"
#undef atomic

using quill::detail::ThreadContext;

int main(int argc, char** argv)
{
  if (argc < 3) { std::fprintf(stderr, "usage: h_exit <script> <trace-out>\n"); return 2; }
  std::ifstream in(argv[1]);
  shim::g_out.open(argv[2]);
  std::unique_ptr<ThreadContext> tc;
  long committed = 0, consumed = 0;
  constexpr size_t REC = 8;
  std::string line;
  while (std::getline(in, line))
  {
    std::stringstream ss(line);
    std::string c, op;
    ss >> c;
    if (c == "init")
    {
      std::string kv;
      size_t cap = 64;
      while (ss >> kv) if (kv.rfind("cap=", 0) == 0) cap = std::stoul(kv.substr(4));
      shim::g_thr = -1;
      shim::g_names.clear();
      shim::g_clk[0] = shim::g_clk[1] = shim::Clock{};
      shim::g_choices.clear();
      committed = consumed = 0;
      tc = std::make_unique<ThreadContext>(quill::QueueType::BoundedBlocking, cap, cap, quill::HugePagesPolicy::Never);
      auto& q = tc->get_spsc_queue_union().bounded_spsc_queue;
      shim::g_names[&q._atomic_writer_pos] = "W";
      shim::g_names[&q._atomic_reader_pos] = "R";
      shim::g_names[&tc->_valid] = "V";
      shim::g_out << "{\"e\":\"init\",\"cap\":" << q.capacity() << "}\n";
    }
    else if (c == "P")
    {
      ss >> op;
      shim::g_thr = 0;
      auto& q = tc->get_spsc_queue_union().bounded_spsc_queue;
      if (op == "write")
      {
        std::byte* p = q.prepare_write(REC);
        if (!p) { shim::g_out << "{\"e\":\"full\"}\n"; continue; }
        std::memset(p, 0x5a, REC);
        q.finish_write(REC);
        q.commit_write();
        ++committed;
        shim::g_out << "{\"e\":\"committed\",\"n\":" << committed << "}\n";
      }
      else if (op == "exit")
      {
        tc->mark_invalid();
        shim::g_out << "{\"e\":\"exited\"}\n";
      }
    }
    else if (c == "B")
    {
      ss >> op;
      shim::g_thr = 1;
      auto& q = tc->get_spsc_queue_union().bounded_spsc_queue;
      if (op == "read")
      {
        long iw = 0;
        ss >> iw;
        shim::g_choices.assign(1, iw);
        long n = 0;
        // consume everything the chosen writer position makes visible, without a second load of the position
        while (true)
        {
          if (n > 0 && q._writer_pos_cache == q._reader_pos) break;
          std::byte* p = q.prepare_read();
          if (!p) break;
          q.finish_read(REC);
          ++n;
        }
        if (n > 0) q.commit_read();
        consumed += n;
        shim::g_choices.clear();
        shim::g_out << "{\"e\":\"read\",\"n\":" << n << ",\"consumed\":" << consumed << "}\n";
      }
      else if (op == "check")
      {
        long iv = 0, iw = 0;
        ss >> iv >> iw;
        shim::g_choices.clear();
        shim::g_choices.push_back(iv);
        shim::g_choices.push_back(iw);
        // the predicate of BackendWorker::_cleanup_invalidated_thread_contexts (the transit buffer is empty here: everything
        // read has been processed)
        bool const valid = tc->is_valid();
        bool const empty = !valid && q.empty();
        shim::g_choices.clear();
        shim::g_out << "{\"e\":\"check\",\"valid\":" << (valid ? "true" : "false") << ",\"empty\":" << (empty ? "true" : "false") << "}\n";
        if (!valid && empty)
          shim::g_out << "{\"e\":\"reclaim\",\"committed\":" << committed << ",\"consumed\":" << consumed << "}\n";
      }
    }
    else if (c == "end") break;
  }
  shim::g_out << "{\"e\":\"end\",\"badchoice\":" << (shim::g_bad_choice ? "true" : "false") << "}\n";
  shim::g_out.close();
  std::_Exit(0);
}
