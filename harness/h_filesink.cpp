// h_filesink: script-driven harness over the REAL quill::FileSink (FileSink.h / StreamSink.h) in a scratch directory.
// Every operation of the script is one call of the sink's public interface (or one action of the USER on the file system /
// the clock); after every operation one ndjson event is emitted that carries what a READER OF THE PATH sees (the file is
// opened by name and parsed into statement ids) plus implementation-level observations used only for the model/code
// comparison (drift): the private _write_occurred flag, whether the sink's FILE* still is the path's inode, O_APPEND of the
// FILE*'s descriptor.
//
// usage: h_filesink <script> <trace-out> <dir>
// script lines (several executions may follow each other in one script; every execution starts with `init`):
//   init                                   destroy the sink, empty <dir>, virtual time 0, counters 0           -> {"e":"init"}
//   open <a|w> [fsync 0|1] [interval_ms] [bufsize|-] [bw 0|1]
//                                          construct FileSink(<dir>/sink.log) with FileSinkConfig{open_mode, fsync_enabled,
//                                          minimum_fsync_interval, write_buffer_size (- = leave the default)}; bw 1 installs a
//                                          FileEventNotifier::before_write callback (replaces the leading 'S' by 'B')  -> "open"
//   pad <bytes>                            every later statement is exactly <bytes> long (0 = natural size)      (no event)
//   pre <id> ...                           the USER creates the file at the path with these statements (before open)  -> "pre"
//   W <id>                                 write_log(...) with the statement text "S<id>[x...]\n"                -> "write"
//   F                                      flush_sink(), then the file at the path is read                        -> "flush"
//   D                                      the USER unlinks the file at the path                                  -> "delete"
//   T <ms>                                 virtual time advances (CLOCK_MONOTONIC is interposed in this executable:
//                                          FileSink::fsync_file uses std::chrono::steady_clock)                   -> "tick"
//   R <a|w>                                destroy the sink, construct a new one on the same path (same config, new mode) -> "restart"
//   end                                    destroy the sink                                                       -> "end"
// every event: {"e":..,"id":..,"mode":..,"disk":[ids],"exists":0|1,"partial":0|1,"bad":0|1,"fsyncs":n,"unsynced":bytes,
//               "t":ms,"wo":0|1,"att":0|1,"oapp":0|1,"cb":n,"err":".."}
//   disk     ids of the whole statements read from the path (empty when the path does not exist)
//   partial  the file ends inside a statement (legal only between flushes: stdio wrote a full buffer)
//   bad      anything else that is not a sequence of statements
//   fsyncs   number of fsync() calls so far (fsync is defined in this executable; it forwards to the system call)
//   unsynced bytes handed to fwrite on the sink's FILE* that were NOT yet in the file when the last fsync of this
//            operation was called (fsync before fflush would make a durable flush a lie)
//   t        sum of the T operations (ms); the virtual monotonic clock also advances 1 us per reading
#include "quill/sinks/FileSink.h"

#include <cstdio>
#include <cstdlib>
#include <cstring>
#include <fcntl.h>
#include <fstream>
#include <memory>
#include <sstream>
#include <string>
#include <sys/stat.h>
#include <sys/syscall.h>
#include <unistd.h>
#include <vector>

namespace fs = quill::fs;

// ------------------------------------------------------------------ interposition: fsync, clock_gettime(CLOCK_MONOTONIC)
static long g_fsyncs = 0;
static int g_fd = -1;               // descriptor of the sink's current FILE* (after_open callback)
static long long g_base = 0;        // size of that file when it was opened
static long long g_wb = 0;          // bytes handed to fwrite on it since
static long long g_unsynced = 0;    // see above
static long long g_vt_ms = 0;       // sum of T
static long long g_reads = 0;       // readings of the virtual clock
static constexpr long long UPTIME_S = 100000;   // the machine has been up for a day: "never fsynced" is long ago

extern "C" int fsync(int fd)
{
  ++g_fsyncs;
  if (fd == g_fd)
  {
    struct stat st;
    if (fstat(fd, &st) == 0)
    {
      long long u = g_base + g_wb - (long long)st.st_size;
      if (u > g_unsynced) g_unsynced = u;
    }
  }
  return (int)syscall(SYS_fsync, fd);
}

extern "C" int clock_gettime(clockid_t c, struct timespec* ts)
{
  if (c != CLOCK_MONOTONIC) return (int)syscall(SYS_clock_gettime, c, ts);
  ++g_reads;
  long long ns = g_vt_ms * 1000000ll + g_reads * 1000ll;
  ts->tv_sec = (time_t)(UPTIME_S + ns / 1000000000ll);
  ts->tv_nsec = (long)(ns % 1000000000ll);
  return 0;
}

// ------------------------------------------------------------------ statements and the reader of the path
static size_t g_pad = 0;
static long g_cb = 0;

static std::string statement(long id)
{
  std::string s = "S" + std::to_string(id);
  if (g_pad > s.size() + 1) s += std::string(g_pad - s.size() - 1, 'x');
  return s + "\n";
}

struct Seen
{
  std::vector<long> ids;
  int exists = 0, partial = 0, bad = 0;
};

static Seen read_path(fs::path const& p)
{
  Seen r;
  std::ifstream f(p, std::ios::binary);
  if (!f) return r;
  r.exists = 1;
  std::stringstream ss; ss << f.rdbuf();
  std::string c = ss.str();
  size_t i = 0, n = c.size();
  while (i < n)
  {
    size_t q = i;
    if (c[q] != 'S' && c[q] != 'B') { r.bad = 1; return r; }
    ++q;
    long id = 0; int nd = 0;
    while (q < n && isdigit((unsigned char)c[q])) { id = id * 10 + (c[q] - '0'); ++q; ++nd; }
    if (q >= n) { r.partial = 1; return r; }
    if (!nd) { r.bad = 1; return r; }
    while (q < n && c[q] == 'x') ++q;
    if (q >= n) { r.partial = 1; return r; }
    if (c[q] != '\n') { r.bad = 1; return r; }
    r.ids.push_back(id);
    i = q + 1;
  }
  return r;
}

static std::string jesc(std::string const& s)
{
  std::string o;
  for (unsigned char c : s)
  {
    if (c == '"' || c == '\\') { o += '\\'; o += (char)c; }
    else if (c < 32 || c > 126) o += '?';
    else o += (char)c;
  }
  return o;
}

struct Cfg
{
  char mode = 'w';
  int fsync = 0;
  long interval = 0;
  long buf = -1;
  int bw = 0;
};

int main(int argc, char** argv)
{
  if (argc < 4) { fprintf(stderr, "usage: h_filesink script trace-out dir\n"); return 2; }
  std::ifstream in(argv[1]);
  FILE* out = fopen(argv[2], "w");
  if (!in || !out) return 2;
  fs::path dir = fs::absolute(argv[3]);
  fs::create_directories(dir);
  fs::path path = dir / "sink.log";
  Cfg cfg;
  std::unique_ptr<quill::FileSink> sink;

  auto construct = [&](char mode) -> std::string
  {
    try
    {
      quill::FileSinkConfig c;
      c.set_open_mode(mode);
      c.set_fsync_enabled(cfg.fsync != 0);
      if (cfg.interval) c.set_minimum_fsync_interval(std::chrono::milliseconds{cfg.interval});
      if (cfg.buf >= 0) c.set_write_buffer_size((size_t)cfg.buf);
      quill::FileEventNotifier fen;
      fen.after_open = [](fs::path const&, FILE* f)
      {
        g_fd = fileno(f);
        struct stat st;
        g_base = (fstat(g_fd, &st) == 0) ? (long long)st.st_size : 0;
        g_wb = 0;
      };
      fen.before_close = [](fs::path const&, FILE*) { g_fd = -1; };
      if (cfg.bw)
        fen.before_write = [](std::string_view m)
        {
          ++g_cb;
          std::string s{m};
          if (!s.empty()) s[0] = 'B';
          return s;
        };
      sink = std::make_unique<quill::FileSink>(path, c, fen);
      cfg.mode = mode;
    }
    catch (std::exception const& e) { sink.reset(); return e.what(); }
    catch (...) { sink.reset(); return "unknown exception"; }
    return "";
  };

  auto emit = [&](char const* e, long id, std::string const& err)
  {
    Seen s = read_path(path);
    int wo = 0, att = 0, oapp = 0;
    if (sink)
    {
      wo = sink->_write_occurred ? 1 : 0;
      if (sink->_file)
      {
        struct stat a, b;
        int fd = fileno(sink->_file);
        if (fstat(fd, &a) == 0 && stat(path.c_str(), &b) == 0 && a.st_ino == b.st_ino && a.st_dev == b.st_dev) att = 1;
        int fl = fcntl(fd, F_GETFL);
        oapp = (fl >= 0 && (fl & O_APPEND)) ? 1 : 0;
      }
    }
    std::string d = "[";
    for (size_t i = 0; i < s.ids.size(); ++i) d += (i ? "," : "") + std::to_string(s.ids[i]);
    d += "]";
    fprintf(out,
            "{\"e\":\"%s\",\"id\":%ld,\"mode\":\"%c\",\"fsync\":%d,\"interval\":%ld,\"buf\":%ld,\"bw\":%d,\"disk\":%s,\"exists\":%d,"
            "\"partial\":%d,\"bad\":%d,\"fsyncs\":%ld,\"unsynced\":%lld,\"t\":%lld,\"wo\":%d,\"att\":%d,\"oapp\":%d,\"cb\":%ld,\"err\":\"%s\"}\n",
            e, id, cfg.mode, cfg.fsync, cfg.interval, sink ? (long)sink->_config.write_buffer_size() : -1, cfg.bw, d.c_str(), s.exists,
            s.partial, s.bad, g_fsyncs, g_unsynced, g_vt_ms, wo, att, oapp, g_cb, jesc(err).c_str());
    fflush(out);
  };

  std::string line;
  while (std::getline(in, line))
  {
    std::istringstream ls(line);
    std::string w; ls >> w;
    if (w.empty() || w[0] == '#') continue;
    g_unsynced = 0;
    if (w == "init")
    {
      sink.reset();
      std::error_code ec;
      for (auto const& e : fs::directory_iterator(dir)) fs::remove_all(e.path(), ec);
      g_fsyncs = 0; g_fd = -1; g_base = g_wb = 0; g_vt_ms = 0; g_pad = 0; g_cb = 0;
      cfg = Cfg{};
      fprintf(out, "{\"e\":\"init\"}\n");
    }
    else if (w == "open")
    {
      std::vector<std::string> a;
      for (std::string t; ls >> t;) a.push_back(t);
      std::string m = a.size() > 0 ? a[0] : "w";
      cfg.fsync = a.size() > 1 ? std::stoi(a[1]) : 0;
      cfg.interval = a.size() > 2 ? std::stol(a[2]) : 0;
      cfg.buf = (a.size() > 3 && a[3] != "-") ? std::stol(a[3]) : -1;
      cfg.bw = a.size() > 4 ? std::stoi(a[4]) : 0;
      sink.reset();
      std::string err = construct(m[0]);
      emit("open", 0, err);
    }
    else if (w == "pad") { ls >> g_pad; }
    else if (w == "pre")
    {
      std::ofstream f(path, std::ios::binary | std::ios::app);
      long id;
      while (ls >> id) f << statement(id);
      f.close();
      emit("pre", 0, "");
    }
    else if (w == "W")
    {
      long id = 0; ls >> id;
      std::string err;
      if (!sink) err = "harness: no sink";
      else
      {
        std::string s = statement(id);
        try
        {
          sink->write_log(nullptr, 0, std::string_view{}, std::string_view{}, std::string{}, std::string_view{},
                          quill::LogLevel::Info, "INFO", "I", nullptr, "", s);
          g_wb += (long long)s.size();
        }
        catch (std::exception const& e) { err = e.what(); }
        catch (...) { err = "unknown exception"; }
      }
      emit("write", id, err);
    }
    else if (w == "F")
    {
      std::string err;
      if (!sink) err = "harness: no sink";
      else
      {
        try { sink->flush_sink(); }
        catch (std::exception const& e) { err = e.what(); }
        catch (...) { err = "unknown exception"; }
      }
      emit("flush", 0, err);
    }
    else if (w == "D")
    {
      int rc = unlink(path.c_str());
      emit("delete", rc == 0 ? 0 : errno, "");
    }
    else if (w == "T")
    {
      long ms = 0; ls >> ms;
      g_vt_ms += ms;
      emit("tick", ms, "");
    }
    else if (w == "R")
    {
      std::string m = "a"; ls >> m;
      std::string err;
      try { sink.reset(); }
      catch (...) { err = "destructor threw"; }
      if (err.empty()) err = construct(m[0]);
      emit("restart", 0, err);
    }
    else if (w == "end")
    {
      sink.reset();
      emit("end", 0, "");
    }
  }
  sink.reset();
  fclose(out);
  return 0;
}
