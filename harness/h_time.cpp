// C13 harness: feeds patterns and sequences of instants to the REAL quill::detail::TimestampFormatter under the
// process time zone (TZ is set in the environment before start: one process per zone) and prints, per call,
// what the code rendered next to the libc reference (gmtime_r/localtime_r + strftime, token by token, with the
// fractional specifier substituted), as ndjson.
//   h_time <script> <out.ndjson>
// Script lines (space separated; patterns hex encoded):
//   B <epoch>                  base epoch for relative instants (a UTC midnight)
//   N <g|l> <hexpattern>       construct a fresh TimestampFormatter (GmtTime / LocalTime)   -> {"op":"new",...}
//   F <relsec> <ns>            format base+relsec seconds + ns nanoseconds on it            -> {"op":"fmt",...}
//   E                          end of the execution: destroy the formatter
//   V <0|1>                    verbose: add per-token pieces to fmt lines
//   X <g|l> <epoch> <maxd>     probe: smallest d in 1..maxd such that a fresh "%H:%M:%S" formatter given
//                              epoch, epoch+d goes to libc (strftime) on the second call     -> {"op":"probe",...}
// No private state of quill is read: the cache path is observed through a link-time interposed strftime.
// If the code under test brings the process down (abort, SIGSEGV ...) the output so far is flushed, a
// {"op":"crash","signal":n} line is appended and the process exits with status 70.
#include "quill/backend/TimestampFormatter.h"

#include <csignal>
#include <cstdio>
#include <cstdlib>
#include <cstring>
#include <ctime>
#include <dlfcn.h>
#include <unistd.h>
#include <fstream>
#include <memory>
#include <sstream>
#include <string>
#include <vector>

// ------------------------------------------------------------------ interposed strftime (counts calls made by quill)
using strftime_fn = size_t (*)(char*, size_t, char const*, struct tm const*);
static strftime_fn real_strftime()
{
  static strftime_fn f = reinterpret_cast<strftime_fn>(dlsym(RTLD_NEXT, "strftime"));
  return f;
}
static long g_strftime_calls = 0;
extern "C" size_t strftime(char* __restrict s, size_t max, char const* __restrict fmt, struct tm const* __restrict tp) noexcept
{
  ++g_strftime_calls;
  return real_strftime()(s, max, fmt, tp);
}

// ------------------------------------------------------------------ helpers
static std::string unhex(std::string const& h)
{
  std::string r;
  for (size_t i = 0; i + 1 < h.size(); i += 2) r.push_back(static_cast<char>(std::stoi(h.substr(i, 2), nullptr, 16)));
  return r;
}
static std::string jstr(std::string const& s)
{
  std::string r = "\"";
  for (unsigned char c : s)
  {
    if (c == '"') r += "\\\"";
    else if (c == '\\') r += "\\\\";
    else if (c < 0x20 || c >= 0x7f)
    {
      char b[8];
      snprintf(b, sizeof b, "\\u%04x", c);
      r += b;
    }
    else r.push_back(static_cast<char>(c));
  }
  r += "\"";
  return r;
}
// libc strftime of one conversion (or any format); a sentinel distinguishes empty output from failure
static std::string libc_fmt(std::string const& f, tm const& ti)
{
  std::string ff = "x" + f;
  std::vector<char> buf(256);
  for (;;)
  {
    size_t n = real_strftime()(buf.data(), buf.size(), ff.c_str(), &ti);
    if (n > 0) return std::string(buf.data() + 1, n - 1);
    if (buf.size() > (1u << 20)) return "<strftime-failed>";
    buf.resize(buf.size() * 2);
  }
}

struct Tok
{
  int kind;          // 0 literal text, 1 conversion, 2 fractional specifier, 3 "%%"
  std::string text;  // as written in the pattern
  int part;          // 1 = before the first fractional specifier, 2 = after
};
// tokenise a strftime-style pattern: %% | %Q(ms|us|ns) | %[flags][width][E|O]<letter> | literal run
static std::vector<Tok> tokenize(std::string const& p)
{
  std::vector<Tok> v;
  int part = 1;
  size_t i = 0;
  while (i < p.size())
  {
    if (p[i] != '%')
    {
      size_t j = i;
      while (j < p.size() && p[j] != '%') ++j;
      v.push_back({0, p.substr(i, j - i), part});
      i = j;
      continue;
    }
    if (i + 1 >= p.size()) { v.push_back({0, "%", part}); ++i; continue; }
    if (p[i + 1] == '%') { v.push_back({3, "%%", part}); i += 2; continue; }
    if (p.compare(i, 4, "%Qms") == 0 || p.compare(i, 4, "%Qus") == 0 || p.compare(i, 4, "%Qns") == 0)
    {
      v.push_back({2, p.substr(i, 4), part});
      if (part == 1) part = 2;
      i += 4;
      continue;
    }
    size_t j = i + 1;
    while (j < p.size() && strchr("_-0^#+", p[j])) ++j;
    while (j < p.size() && p[j] >= '0' && p[j] <= '9') ++j;
    if (j < p.size() && (p[j] == 'E' || p[j] == 'O')) ++j;
    if (j < p.size()) ++j;
    v.push_back({1, p.substr(i, j - i), part});
    i = j;
  }
  return v;
}

static std::string frac_digits(std::string const& spec, long ns)
{
  char b[16];
  if (spec == "%Qms") snprintf(b, sizeof b, "%03ld", ns / 1000000);
  else if (spec == "%Qus") snprintf(b, sizeof b, "%06ld", ns / 1000);
  else snprintf(b, sizeof b, "%09ld", ns);
  return b;
}

struct Field { int part; char kind; size_t pos; size_t width; };

static FILE* g_out = nullptr;
static void on_fatal(int sig)
{
  if (g_out)
  {
    fprintf(g_out, "{\"op\":\"crash\",\"signal\":%d}\n", sig);
    fflush(g_out);
  }
  _exit(70);
}

int main(int argc, char** argv)
{
  if (argc < 3) { fprintf(stderr, "usage: h_time <script> <out>\n"); return 2; }
  std::ifstream in(argv[1]);
  FILE* out = fopen(argv[2], "w");
  if (!in || !out) { fprintf(stderr, "cannot open files\n"); return 2; }
  std::vector<char> obuf(1 << 20);
  setvbuf(out, obuf.data(), _IOFBF, obuf.size());
  g_out = out;
  for (int sg : {SIGABRT, SIGSEGV, SIGBUS, SIGFPE, SIGILL}) signal(sg, on_fatal);

  long long base = 0;
  bool verbose = false;
  std::unique_ptr<quill::detail::TimestampFormatter> f;
  std::string pat;
  bool gmt = false;
  std::vector<Tok> toks;
  std::string line;
  while (std::getline(in, line))
  {
    if (line.empty()) continue;
    std::istringstream ls(line);
    std::string cmd;
    ls >> cmd;
    if (cmd == "B") { ls >> base; }
    else if (cmd == "V") { int v; ls >> v; verbose = v != 0; }
    else if (cmd == "E") { f.reset(); }
    else if (cmd == "N")
    {
      std::string m, hx;
      ls >> m >> hx;
      gmt = (m == "g");
      pat = unhex(hx);
      toks = tokenize(pat);
      f.reset();
      bool acc = true;
      std::string err;
      try
      {
        f = std::make_unique<quill::detail::TimestampFormatter>(pat, gmt ? quill::Timezone::GmtTime : quill::Timezone::LocalTime);
      }
      catch (std::exception const& e) { acc = false; err = e.what(); }
      catch (...) { acc = false; err = "non-std exception"; }
      fprintf(out, "{\"op\":\"new\",\"mode\":\"%s\",\"pat\":%s,\"acc\":%s,\"err\":%s}\n", gmt ? "gmt" : "local",
              jstr(pat).c_str(), acc ? "true" : "false", jstr(err).c_str());
    }
    else if (cmd == "F")
    {
      long long rel; long ns;
      ls >> rel >> ns;
      if (!f) { fprintf(out, "{\"op\":\"fmt\",\"t\":%lld,\"ns\":%ld,\"skipped\":true}\n", rel, ns); continue; }
      long long const secs = base + rel;
      // --- the real code
      long const before = g_strftime_calls;
      std::string got_out;
      std::string thrown;
      try
      {
        std::string_view sv = f->format_timestamp(std::chrono::nanoseconds{secs * 1000000000LL + ns});
        got_out.assign(sv.data(), sv.size());
      }
      catch (std::exception const& e) { thrown = e.what(); }
      catch (...) { thrown = "non-std exception"; }
      long const slow = g_strftime_calls - before;
      // --- the libc reference, evaluated for this call
      time_t tt = static_cast<time_t>(secs);
      tm ti{};
      if (gmt) gmtime_r(&tt, &ti); else localtime_r(&tt, &ti);
      std::string ref, whole;
      std::vector<Field> fields;
      std::string pieces = "[";
      bool sbad = false;   // libc's own %s is not the instant (ambiguous wall clock that tm_isdst cannot resolve): not meaningful
      for (auto const& t : toks)
      {
        std::string piece;
        if (t.kind == 0) { piece = t.text; whole += t.text; }
        else if (t.kind == 3) { piece = "%"; whole += "%%"; }
        else if (t.kind == 2 && t.part == 1) { piece = frac_digits(t.text, ns); whole += piece; }   // first fractional specifier
        else if (t.kind == 2) { piece = libc_fmt(t.text, ti); whole += t.text; }                   // a further one: not a valid pattern
        else
        {
          piece = libc_fmt(t.text, ti);
          whole += t.text;
          if (t.text.size() == 2)
          {
            char c = t.text[1];
            size_t p0 = ref.size();
            if (strchr("HMSIkl", c)) fields.push_back({t.part, c, p0, 2});
            else if (c == 's')
            {
              fields.push_back({t.part, c, p0, piece.size()});
              if (piece != std::to_string(secs)) sbad = true;
            }
            else if (c == 'T') { fields.push_back({t.part, 'H', p0, 2}); fields.push_back({t.part, 'M', p0 + 3, 2}); fields.push_back({t.part, 'S', p0 + 6, 2}); }
            else if (c == 'R') { fields.push_back({t.part, 'H', p0, 2}); fields.push_back({t.part, 'M', p0 + 3, 2}); }
            else if (c == 'r') { fields.push_back({t.part, 'I', p0, 2}); fields.push_back({t.part, 'M', p0 + 3, 2}); fields.push_back({t.part, 'S', p0 + 6, 2}); }
          }
        }
        if (verbose)
        {
          if (pieces.size() > 1) pieces += ",";
          pieces += "[" + jstr(t.text) + "," + jstr(piece) + "," + std::to_string(ref.size()) + "]";
        }
        ref += piece;
      }
      pieces += "]";
      bool const ref2ok = (libc_fmt(whole, ti) == ref);   // the same reference computed on the whole pattern at once
      // numeric fields as printed by the code (positions known from the reference when the lengths agree)
      std::string gotf = "[";
      if (got_out.size() == ref.size())
      {
        for (auto const& fd : fields)
        {
          long long hi = -1, lo = -1;
          std::string s = got_out.substr(fd.pos, fd.width);
          size_t k = 0;
          while (k < s.size() && s[k] == ' ') ++k;
          bool ok = k < s.size();
          long long v = 0;
          for (size_t q = k; q < s.size(); ++q) { if (s[q] < '0' || s[q] > '9') { ok = false; break; } v = v * 10 + (s[q] - '0'); }
          if (ok) { if (fd.kind == 's') { hi = v / 100000; lo = v % 100000; } else { hi = 0; lo = v; } }
          if (gotf.size() > 1) gotf += ",";
          gotf += "[" + std::to_string(fd.part) + ",\"" + std::string(1, fd.kind) + "\"," + std::to_string(hi) + "," + std::to_string(lo) + "]";
        }
      }
      gotf += "]";
      tm tc = ti;
      long long const loc = static_cast<long long>(timegm(&tc)) - base;   // local (or GMT) wall-clock seconds relative to the base
      fprintf(out, "{\"op\":\"fmt\",\"t\":%lld,\"ns\":%ld,\"out\":%s,\"ref\":%s,\"ref2ok\":%s,\"slow\":%ld,\"loc\":%lld,\"off\":%ld,\"dst\":%d,\"zn\":%s,\"got\":%s",
              rel, ns, jstr(got_out).c_str(), jstr(ref).c_str(), ref2ok ? "true" : "false", slow, loc,
              static_cast<long>(ti.tm_gmtoff), ti.tm_isdst, jstr(ti.tm_zone ? ti.tm_zone : "").c_str(), gotf.c_str());
      if (!thrown.empty()) fprintf(out, ",\"thrown\":%s", jstr(thrown).c_str());
      if (sbad) fprintf(out, ",\"sbad\":true");
      if (verbose) fprintf(out, ",\"pieces\":%s", pieces.c_str());
      fprintf(out, "}\n");
    }
    else if (cmd == "X")
    {
      std::string m; long long t0, maxd;
      ls >> m >> t0 >> maxd;
      auto tz = (m == "g") ? quill::Timezone::GmtTime : quill::Timezone::LocalTime;
      auto slow_second = [&](long long d) {
        quill::detail::TimestampFormatter pf{"%H:%M:%S", tz};
        (void)pf.format_timestamp(std::chrono::nanoseconds{t0 * 1000000000LL});
        long const b = g_strftime_calls;
        (void)pf.format_timestamp(std::chrono::nanoseconds{(t0 + d) * 1000000000LL});
        return g_strftime_calls != b;
      };
      long long d = -1;
      if (slow_second(maxd))
      {
        long long lo = 0, hi = maxd;   // slow(hi) true; slow(lo=0) treated as false
        while (hi - lo > 1)
        {
          long long mid = (lo + hi) / 2;
          if (slow_second(mid)) hi = mid; else lo = mid;
        }
        d = hi;
      }
      fprintf(out, "{\"op\":\"probe\",\"mode\":\"%s\",\"t0\":%lld,\"d\":%lld}\n", m == "g" ? "gmt" : "local", t0, d);
    }
  }
  fclose(out);
  return 0;
}
