// C12 harness: runs format-pattern cases through the REAL quill code and prints what it produced (ndjson).
//
//   h_fmt_pattern extract
//       prints one JSON line with the three attribute tables of PatternFormatter read from the compiled code
//       (enum Attribute, _attribute_from_string, the named-arg ids seen through _order_index) - the constants of
//       spec/Pattern.tla.
//   h_fmt_pattern run <cases> <out>
//       <cases>: one case per line, space separated key=value; string values are hex encoded ("-" = null)
//         H tname=.. ld3=.. ls3=.. ... ld8=.. ls8=..       header: thread name, level descriptions / short codes
//         D id=.. pat=.. [tsp=..] ts=.. tid=.. tname=.. pid=.. logger=.. lvl=.. lvls=.. src=.. fn=.. tags=..|- named=k:v,k:v|- msg=..
//             direct: PatternFormatter constructed from pat (timestamp pattern %H:%M:%S.%Qns, GMT), format() called
//             (once with decoy values, then with these values; the second result is reported)
//         E id=.. pat=.. multi=0|1 logger=.. level=3..8 ts=.. src=.. fn=.. tags=..|- kind=plain|named|rt msg=..
//             [tmpl=.. nvn=<count> nv=v1,v2]  [file=.. line=<dec> func=..]  [sinks=<s>,<s>,..]
//             sinks: the logger gets its own recording sinks in this order; <s> = "-" (plain sink: the logger's
//             pattern) or the hex of the sink's override pattern (Sink(override_pattern_formatter_options));
//             without it the logger has one plain sink.
//             end to end: a logger with these PatternFormatterOptions, one statement through the real frontend
//             (log_statement / LOG_RUNTIME_METADATA), the real queue and ManualBackendWorker::poll() into a
//             recording sink.
//   <out>: {"id":n,"res":"ok"|"rejected"|"error","out":s,"err":s}  /  {"id":n,"outs":[s..],"msgs":[s..],"notes":[s..]}
//          with sinks=: additionally "souts":[[s..],..] = what each sink received, in the order of the sinks
//          first line {"hdr":1,"tid":s,"pid":s}
#include "quill/Backend.h"
#include "quill/Frontend.h"
#include "quill/LogMacros.h"
#include "quill/Logger.h"
#include "quill/UserClockSource.h"
#include "quill/backend/PatternFormatter.h"
#include "quill/sinks/Sink.h"

#include <algorithm>
#include <cstdio>
#include <cstdlib>
#include <cstring>
#include <deque>
#include <fstream>
#include <map>
#include <memory>
#include <optional>
#include <sstream>
#include <string>
#include <vector>

#include <pthread.h>
#include <sys/syscall.h>
#include <unistd.h>

using quill::LogLevel;
using quill::MacroMetadata;
using quill::PatternFormatter;
using quill::PatternFormatterOptions;

static std::string jesc(std::string_view s)
{
  std::string o;
  o.reserve(s.size() + 8);
  for (unsigned char c : s)
  {
    switch (c)
    {
    case '"': o += "\\\""; break;
    case '\\': o += "\\\\"; break;
    case '\n': o += "\\n"; break;
    case '\t': o += "\\t"; break;
    case '\r': o += "\\r"; break;
    default:
      if (c < 0x20 || c >= 0x7f)
      {
        char b[8];
        std::snprintf(b, sizeof b, "\\u%04x", c);
        o += b;
      }
      else
        o += static_cast<char>(c);
    }
  }
  return o;
}

static std::string unhex(std::string const& h)
{
  std::string o;
  o.reserve(h.size() / 2);
  auto v = [](char c) { return c <= '9' ? c - '0' : (c | 0x20) - 'a' + 10; };
  for (size_t i = 0; i + 1 < h.size(); i += 2) o += static_cast<char>(v(h[i]) * 16 + v(h[i + 1]));
  return o;
}

using KV = std::map<std::string, std::string>;
static KV parse_kv(std::string const& line, std::string& tag)
{
  KV m;
  std::stringstream ss(line);
  ss >> tag;
  std::string t;
  while (ss >> t)
  {
    auto p = t.find('=');
    if (p == std::string::npos) continue;
    m[t.substr(0, p)] = t.substr(p + 1);
  }
  return m;
}
static std::string S(KV const& m, char const* k)
{
  auto it = m.find(k);
  return it == m.end() ? std::string{} : unhex(it->second);
}
static bool isnull(KV const& m, char const* k)
{
  auto it = m.find(k);
  return it == m.end() || it->second == "-";
}
static std::vector<std::string> split(std::string const& s, char sep)
{
  std::vector<std::string> v;
  if (s.empty()) return v;
  size_t a = 0;
  while (true)
  {
    size_t b = s.find(sep, a);
    if (b == std::string::npos) { v.push_back(s.substr(a)); break; }
    v.push_back(s.substr(a, b - a));
    a = b + 1;
  }
  return v;
}

static char const* kNames[] = {"time", "file_name", "caller_function", "log_level", "log_level_short_code",
                               "line_number", "logger", "full_path", "thread_id", "thread_name", "process_id",
                               "source_location", "short_source_location", "message", "tags", "named_args"};

// ------------------------------------------------------------------------------------------------- extract
static int do_extract()
{
  using A = PatternFormatter::Attribute;
  std::pair<char const*, int> en[] = {
    {"time", A::Time}, {"file_name", A::FileName}, {"caller_function", A::CallerFunction},
    {"log_level", A::LogLevel}, {"log_level_short_code", A::LogLevelShortCode}, {"line_number", A::LineNumber},
    {"logger", A::Logger}, {"full_path", A::FullPath}, {"thread_id", A::ThreadId}, {"thread_name", A::ThreadName},
    {"process_id", A::ProcessId}, {"source_location", A::SourceLocation},
    {"short_source_location", A::ShortSourceLocation}, {"message", A::Message}, {"tags", A::Tags},
    {"named_args", A::NamedArgs}};
  auto emit = [](char const* key, std::vector<std::pair<int, std::string>> v) {
    std::stable_sort(v.begin(), v.end(), [](auto const& a, auto const& b) { return a.first < b.first; });
    std::printf("\"%s\":[", key);
    for (size_t i = 0; i < v.size(); ++i) std::printf("%s\"%s\"", i ? "," : "", v[i].second.c_str());
    std::printf("],\"%s_idx\":[", key);
    for (size_t i = 0; i < v.size(); ++i) std::printf("%s%d", i ? "," : "", v[i].first);
    std::printf("]");
  };
  std::vector<std::pair<int, std::string>> e, m, a;
  for (auto const& p : en) e.emplace_back(p.second, p.first);
  for (char const* n : kNames)
  {
    int mv = -1, ai = -1;
    try { mv = static_cast<int>(PatternFormatter::_attribute_from_string(n)); } catch (std::exception const&) {}
    try
    {
      PatternFormatter pf{PatternFormatterOptions{std::string{"%("} + n + ")", "%H:%M:%S", quill::Timezone::GmtTime}};
      for (size_t i = 0; i < pf._order_index.size(); ++i)
        if (pf._order_index[i] == 0) { ai = static_cast<int>(i); break; }
    }
    catch (std::exception const&) {}
    m.emplace_back(mv, n);
    a.emplace_back(ai, n);
  }
  std::printf("{\"nr\":%d,", static_cast<int>(A::ATTR_NR_ITEMS));
  emit("enum_order", e); std::printf(",");
  emit("map_order", m); std::printf(",");
  emit("arg_order", a);
  std::printf("}\n");
  return 0;
}

// ------------------------------------------------------------------------------------------------- e2e plumbing
struct RecSink : quill::Sink
{
  std::vector<std::pair<std::string, std::string>> rec;   // (log_message, log_statement)
  explicit RecSink(std::optional<PatternFormatterOptions> o = std::nullopt) : quill::Sink(std::move(o)) {}
  void write_log(MacroMetadata const*, uint64_t, std::string_view, std::string_view, std::string const&,
                 std::string_view, LogLevel, std::string_view, std::string_view,
                 std::vector<std::pair<std::string, std::string>> const*, std::string_view msg,
                 std::string_view stmt) override
  {
    rec.emplace_back(std::string{msg}, std::string{stmt});
  }
  void flush_sink() override {}
};

struct Clock : quill::UserClockSource
{
  uint64_t ts{0};
  uint64_t now() const override { return ts; }
};

static quill::ManualBackendWorker* g_mbw = nullptr;
static std::shared_ptr<quill::Sink> g_sink;
static Clock g_clock;
static std::vector<std::string> g_notes;
static std::deque<std::string> g_keep;             // strings MacroMetadata objects point into
static std::deque<MacroMetadata> g_md;

static char const* keep(std::string s)
{
  g_keep.push_back(std::move(s));
  return g_keep.back().c_str();
}

static void ensure_backend(KV const& hdr)
{
  if (g_mbw) return;
  quill::BackendOptions bo;
  for (int i = 3; i <= 8; ++i)
  {
    std::string kd = "ld" + std::to_string(i), ks = "ls" + std::to_string(i);
    if (hdr.count(kd)) bo.log_level_descriptions[static_cast<size_t>(i)] = unhex(hdr.at(kd));
    if (hdr.count(ks)) bo.log_level_short_codes[static_cast<size_t>(i)] = unhex(hdr.at(ks));
  }
  bo.error_notifier = [](std::string const& m) { g_notes.push_back(m); };
  bo.check_backend_singleton_instance = false;
  bo.transit_event_buffer_initial_capacity = 2;   // the per-thread transit-event slots are re-used after two events
  g_mbw = quill::Backend::acquire_manual_backend_worker();
  g_mbw->init(bo);
  g_sink = quill::Frontend::create_or_get_sink<RecSink>("rec");
}

// a statement that is not judged but leaves a history behind it: named arguments on a LOG_BACKTRACE-level statement (stored,
// never written) and on a statement whose sink throws; the statements judged afterwards re-use their transit-event slots
struct ThrowSink : quill::Sink
{
  void write_log(MacroMetadata const*, uint64_t, std::string_view, std::string_view, std::string const&, std::string_view,
                 LogLevel, std::string_view, std::string_view, std::vector<std::pair<std::string, std::string>> const*,
                 std::string_view, std::string_view) override
  {
    throw std::runtime_error("history-sink-throws");
  }
  void flush_sink() override {}
};
static void run_history(KV const& c)
{
  static constexpr MacroMetadata md_bt{"hist.cpp:1", "hist", "held {ha} {hb}", nullptr, LogLevel::Backtrace, MacroMetadata::Event::Log};
  static constexpr MacroMetadata md_thr{"hist.cpp:2", "hist", "thrown {ta} {tb}", nullptr, LogLevel::Info, MacroMetadata::Event::Log};
  g_clock.ts = 1;
  if (c.count("how") && c.at("how") == "bt")
  {
    quill::Logger* lg = quill::Frontend::create_or_get_logger("hist_bt", g_sink, PatternFormatterOptions{"%(message)"},
                                                             quill::ClockSourceType::User, &g_clock);
    lg->init_backtrace(2, LogLevel::None);
    lg->template log_statement<false, false>(LogLevel::None, &md_bt, std::string{"x1"}, std::string{"x2"});
  }
  else
  {
    quill::Logger* lg = quill::Frontend::create_or_get_logger("hist_thr", quill::Frontend::create_or_get_sink<ThrowSink>("hist_thr_sink"),
                                                             PatternFormatterOptions{"%(message)"}, quill::ClockSourceType::User, &g_clock);
    lg->template log_statement<false, false>(LogLevel::None, &md_thr, std::string{"y1"}, std::string{"y2"});
  }
  g_mbw->poll();
}

static void run_e2e(KV const& c, std::FILE* out)
{
  std::string const id = c.at("id");
  auto* rs = static_cast<RecSink*>(g_sink.get());
  rs->rec.clear();
  g_notes.clear();
  bool const multi = c.at("multi") == "1";
  std::string const kind = c.at("kind");
  auto level = static_cast<LogLevel>(std::stoi(c.at("level")));
  g_clock.ts = std::stoull(c.at("ts"));
  std::string const msg = S(c, "msg");
  try
  {
    PatternFormatterOptions const pfo{S(c, "pat"), "%H:%M:%S.%Qns", quill::Timezone::GmtTime, multi};
    std::vector<std::shared_ptr<quill::Sink>> sinks;
    if (c.count("sinks"))
    {
      size_t k = 0;
      for (auto const& sp : split(c.at("sinks"), ','))
      {
        std::string const name = "ms" + id + "_" + std::to_string(k++);
        if (sp == "-")
          sinks.push_back(quill::Frontend::create_or_get_sink<RecSink>(name));
        else
          sinks.push_back(quill::Frontend::create_or_get_sink<RecSink>(
            name, std::optional<PatternFormatterOptions>{PatternFormatterOptions{unhex(sp), "%H:%M:%S.%Qns", quill::Timezone::GmtTime, multi}}));
      }
    }
    else
      sinks.push_back(g_sink);
    quill::Logger* lg = quill::Frontend::create_or_get_logger(S(c, "logger"), sinks, pfo, quill::ClockSourceType::User, &g_clock);
    lg->set_log_level(LogLevel::TraceL3);
    char const* tags = isnull(c, "tags") ? nullptr : keep(S(c, "tags"));
    if (kind == "plain")
    {
      g_md.emplace_back(keep(S(c, "src")), keep(S(c, "fn")), "{}", tags, level, MacroMetadata::Event::Log);
      lg->template log_statement<false, false>(LogLevel::None, &g_md.back(), msg);
    }
    else if (kind == "named")
    {
      g_md.emplace_back(keep(S(c, "src")), keep(S(c, "fn")), keep(S(c, "tmpl")), tags, level, MacroMetadata::Event::Log);
      std::vector<std::string> nv;
      for (auto const& h : split(c.count("nv") ? c.at("nv") : std::string{}, ',')) nv.push_back(unhex(h));
      size_t const nvn = c.count("nvn") ? std::stoul(c.at("nvn")) : nv.size();
      while (nv.size() < nvn) nv.emplace_back();      // a single empty value encodes as the empty list
      if (nv.size() == 1)
        lg->template log_statement<false, false>(LogLevel::None, &g_md.back(), nv[0]);
      else if (nv.size() == 2)
        lg->template log_statement<false, false>(LogLevel::None, &g_md.back(), nv[0], nv[1]);
      else
        lg->template log_statement<false, false>(LogLevel::None, &g_md.back(), std::string{}, std::string{}, std::string{});
    }
    else   // rt: runtime supplied source metadata
    {
      std::string const file = S(c, "file"), func = S(c, "func");
      uint32_t const line = static_cast<uint32_t>(std::stoul(c.at("line")));
      QUILL_LOG_RUNTIME_METADATA(lg, level, file, line, func, "{}", msg);
    }
    g_mbw->poll();
    std::vector<std::pair<std::string, std::string>> got = static_cast<RecSink*>(sinks[0].get())->rec;
    std::string souts;
    if (c.count("sinks"))
    {
      souts = ",\"souts\":[";
      for (size_t k = 0; k < sinks.size(); ++k)
      {
        souts += k ? ",[" : "[";
        auto const& r = static_cast<RecSink*>(sinks[k].get())->rec;
        for (size_t i = 0; i < r.size(); ++i) souts += std::string{i ? "," : ""} + "\"" + jesc(r[i].second) + "\"";
        souts += "]";
      }
      souts += "]";
    }
    sinks.clear();
    quill::Frontend::remove_logger(lg);
    g_mbw->poll();
    g_mbw->poll_one();   // idle poll: logger cleanup
    std::fprintf(out, "{\"id\":%s,\"outs\":[", id.c_str());
    for (size_t i = 0; i < got.size(); ++i) std::fprintf(out, "%s\"%s\"", i ? "," : "", jesc(got[i].second).c_str());
    std::fprintf(out, "],\"msgs\":[");
    for (size_t i = 0; i < got.size(); ++i) std::fprintf(out, "%s\"%s\"", i ? "," : "", jesc(got[i].first).c_str());
    std::fprintf(out, "],\"notes\":[");
    for (size_t i = 0; i < g_notes.size(); ++i) std::fprintf(out, "%s\"%s\"", i ? "," : "", jesc(g_notes[i]).c_str());
    std::fprintf(out, "]%s}\n", souts.c_str());
  }
  catch (std::exception const& e)
  {
    std::fprintf(out, "{\"id\":%s,\"outs\":[],\"msgs\":[],\"notes\":[\"exception: %s\"]}\n", id.c_str(), jesc(e.what()).c_str());
  }
}

// ------------------------------------------------------------------------------------------------- direct
static void run_direct(KV const& c, std::FILE* out)
{
  std::string const id = c.at("id");
  std::string const pat = S(c, "pat");
  std::unique_ptr<PatternFormatter> pf;
  try
  {
    pf = std::make_unique<PatternFormatter>(
      PatternFormatterOptions{pat, c.count("tsp") ? S(c, "tsp") : std::string{"%H:%M:%S.%Qns"}, quill::Timezone::GmtTime,
                              c.count("multi") && c.at("multi") == "1"});
  }
  catch (std::exception const& e)
  {
    std::fprintf(out, "{\"id\":%s,\"res\":\"rejected\",\"out\":\"\",\"err\":\"%s\"}\n", id.c_str(), jesc(e.what()).c_str());
    return;
  }
  std::string const src = S(c, "src"), fn = S(c, "fn"), tags = S(c, "tags");
  MacroMetadata md{src.c_str(), fn.c_str(), "{}", isnull(c, "tags") ? nullptr : tags.c_str(), LogLevel::Info,
                   MacroMetadata::Event::Log};
  std::vector<std::pair<std::string, std::string>> named;
  bool const named_null = isnull(c, "named");
  if (!named_null)
    for (auto const& kv : split(c.at("named"), ','))
    {
      auto p = kv.find(':');
      named.emplace_back(unhex(kv.substr(0, p)), unhex(kv.substr(p + 1)));
    }
  std::string const tid = S(c, "tid"), tname = S(c, "tname"), pid = S(c, "pid"), logger = S(c, "logger"),
                    lvl = S(c, "lvl"), lvls = S(c, "lvls"), msg = S(c, "msg");
  try
  {
    // a first call with other values: whatever the formatter caches must not leak into the next statement
    MacroMetadata decoy{"/decoy/dir/decoy_file.cpp:99999", "decoy_function", "{}", "#decoy ", LogLevel::Info,
                        MacroMetadata::Event::Log};
    std::vector<std::pair<std::string, std::string>> dn{{"decoy_key", "decoy_value"}};
    (void)pf->format(1000000000000000000ull, "dtid", "dtname", "dpid", "dlogger", "DLEVEL", "DL", decoy, &dn,
                     "decoy message that is rather long so that buffers have been used before");
    std::string_view r = pf->format(std::stoull(c.at("ts")), tid, tname, pid, logger, lvl, lvls, md,
                                    named_null ? nullptr : &named, msg);
    std::fprintf(out, "{\"id\":%s,\"res\":\"ok\",\"out\":\"%s\",\"err\":\"\"}\n", id.c_str(), jesc(r).c_str());
  }
  catch (std::exception const& e)
  {
    std::fprintf(out, "{\"id\":%s,\"res\":\"error\",\"out\":\"\",\"err\":\"%s\"}\n", id.c_str(), jesc(e.what()).c_str());
  }
}

int main(int argc, char** argv)
{
  if (argc >= 2 && std::string{argv[1]} == "extract") return do_extract();
  if (argc < 4 || std::string{argv[1]} != "run")
  {
    std::fprintf(stderr, "usage: h_fmt_pattern extract | run <cases> <out>\n");
    return 2;
  }
  std::ifstream in(argv[2]);
  std::FILE* out = std::fopen(argv[3], "w");
  if (!in || !out) return 2;
  KV hdr;
  std::string line, tag;
  bool hdr_out = false;
  while (std::getline(in, line))
  {
    if (line.empty()) continue;
    KV c = parse_kv(line, tag);
    if (tag == "H")
    {
      hdr = c;
      if (hdr.count("tname")) pthread_setname_np(pthread_self(), unhex(hdr.at("tname")).c_str());
      continue;
    }
    if (!hdr_out)
    {
      std::fprintf(out, "{\"hdr\":1,\"tid\":\"%ld\",\"pid\":\"%ld\"}\n", static_cast<long>(syscall(SYS_gettid)),
                   static_cast<long>(getpid()));
      hdr_out = true;
    }
    if (tag == "D") run_direct(c, out);
    else if (tag == "E") { ensure_backend(hdr); run_e2e(c, out); }
    else if (tag == "P") { ensure_backend(hdr); run_history(c); }
    std::fflush(out);
  }
  std::fclose(out);
  std::fflush(stdout);
  // the manual backend worker's destructor runs at static destruction; leave without it (everything is recorded)
  _exit(0);
}
