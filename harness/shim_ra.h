// Shim std::atomic implementing the release/acquire model of spec/ExitRA.tla / spec/RemoveRA.tla: every atomic object has a
// history of messages [value, clock published (release), writer's clock at the store]; a load may read any message not older
// than what the reader already read of that object and not older than the newest message whose store happens-before the
// reader; for objects given a name the script chooses which one (g_choices), all others read the latest. Read-modify-writes
// read the last message and carry on its release sequence. Logical threads are selected with shim::g_thr (-1 = set-up).
// Include this header, then `#define atomic verif_atomic` around the quill headers under test.
#pragma once
#include <algorithm>
#include <cstdint>
#include <deque>
#include <fstream>
#include <map>
#include <mutex>
#include <string>
#include <type_traits>
#include <vector>
#include <atomic>

namespace shim
{
#ifndef SHIM_NT
#define SHIM_NT 2
#endif
constexpr int NT = SHIM_NT;
struct Clock { unsigned c[NT]{}; };
inline Clock join(Clock a, Clock const& b) { for (int i = 0; i < NT; ++i) a.c[i] = std::max(a.c[i], b.c[i]); return a; }
inline bool leq(Clock const& a, Clock const& b) { for (int i = 0; i < NT; ++i) if (a.c[i] > b.c[i]) return false; return true; }
#ifdef SHIM_MT
// multi-threaded use (h_stop: a REAL backend thread): the logical thread id is per OS thread (-2 = not yet assigned: takes
// g_default_thr at its first access), every access runs under one global mutex, and a load of a named object by a logical
// thread first calls g_park outside that mutex (the harness parks the thread there until the script releases it).
inline thread_local int g_thr = -2;
inline int g_default_thr = 1;
inline std::recursive_mutex g_mx;
inline void (*g_park)(std::string const&, int, int) = nullptr;      // (object name, logical thread, 0 load / 1 store / 2 rmw)
#else
inline int g_thr = -1;                       // -1: set-up (constructor stores precede both threads)
#endif
inline Clock g_clk[NT];
inline std::map<std::string, std::deque<long>> g_choices;   // per named object: message indexes for its next loads (0 = latest)
inline std::map<std::string, long> g_sticky;                // per named object: index for every load once g_choices is used up
inline bool g_bad_choice = false;
inline std::ofstream g_out;
inline std::map<void const*, std::string> g_names;
inline bool is_acq(std::memory_order m) { return m == std::memory_order_acquire || m == std::memory_order_acq_rel || m == std::memory_order_seq_cst || m == std::memory_order_consume; }
inline bool is_rel(std::memory_order m) { return m == std::memory_order_release || m == std::memory_order_acq_rel || m == std::memory_order_seq_cst; }
inline char const* mo_name(std::memory_order m)
{
  switch (m)
  {
  case std::memory_order_relaxed: return "rlx";
  case std::memory_order_acquire: case std::memory_order_consume: return "acq";
  case std::memory_order_release: return "rel";
  default: return "ar";
  }
}
inline std::string name_of(void const* p) { auto it = g_names.find(p); return it == g_names.end() ? std::string{} : it->second; }
#ifdef SHIM_MT
inline std::unique_lock<std::recursive_mutex> enter(void const* p, int kind)
{
  if (g_thr == -2) g_thr = g_default_thr;
  std::unique_lock<std::recursive_mutex> lk(g_mx);
  if (g_thr >= 0 && g_park)
  {
    std::string const nm = name_of(p);
    if (!nm.empty()) { lk.unlock(); g_park(nm, g_thr, kind); lk.lock(); }
  }
  return lk;
}
#define SHIM_ENTER(p, kind) auto shim_lk_ = shim::enter(p, kind)
// an atomic that only exists inside a call (flush_log's local flag) gets its name when it is constructed by logical thread 0
inline char const* g_autoname = nullptr;
inline int g_autonamed = 0;
inline void born(void const* p)
{
  if (g_autoname == nullptr || g_thr != 0) return;
  std::lock_guard<std::recursive_mutex> lk(g_mx);
  g_names[p] = g_autoname;
  g_autoname = nullptr;
  ++g_autonamed;
}
inline void died(void const* p)
{
  if (g_autonamed == 0) return;
  std::lock_guard<std::recursive_mutex> lk(g_mx);
  if (g_names.erase(p)) --g_autonamed;
}
#define SHIM_BORN(p) shim::born(p)
#define SHIM_DIED(p) shim::died(p)
#else
#define SHIM_ENTER(p, kind) (void)0
#define SHIM_BORN(p) (void)0
#define SHIM_DIED(p) (void)0
#endif
}

namespace std
{
template <typename T>
struct verif_atomic
{
  struct Msg { T val; shim::Clock rel; shim::Clock ev; };
  std::vector<Msg> h;
  size_t view[shim::NT]{};
  verif_atomic() noexcept { h.push_back({T{}, {}, {}}); }
  verif_atomic(T v) noexcept { h.push_back({v, {}, {}}); SHIM_BORN(this); }
  ~verif_atomic() { SHIM_DIED(this); }
  verif_atomic(verif_atomic const&) = delete;
  verif_atomic& operator=(verif_atomic const&) = delete;
  static long long as_ll(T v)
  {
    if constexpr (std::is_pointer_v<T>) return reinterpret_cast<long long>(v);
    else return static_cast<long long>(v);
  }
  size_t lo(int t) const
  {
    size_t m = view[t];
    for (size_t j = 0; j < h.size(); ++j) if (shim::leq(h[j].ev, shim::g_clk[t]) && j > m) m = j;
    return m;
  }
  T load(std::memory_order mo = std::memory_order_seq_cst) const noexcept
  {
    auto* self = const_cast<verif_atomic*>(this);
    SHIM_ENTER(this, 0);
    if (shim::g_thr < 0) return h.back().val;
    int const t = shim::g_thr;
    std::string const nm = shim::name_of(this);
    size_t idx = h.size() - 1;
    auto cit = nm.empty() ? shim::g_choices.end() : shim::g_choices.find(nm);
    auto sit = nm.empty() ? shim::g_sticky.end() : shim::g_sticky.find(nm);
    bool const queued = cit != shim::g_choices.end() && !cit->second.empty();
    if (queued || sit != shim::g_sticky.end())     // the script chooses what this load reads
    {
      long c = queued ? cit->second.front() : sit->second;
      if (queued) cit->second.pop_front();
      if (c > 0)
      {
        idx = static_cast<size_t>(c - 1);
        if (!queued && idx < h.size() && idx < lo(t)) idx = lo(t);      // a standing choice that has become too old: the oldest allowed
        else if (idx >= h.size() || idx < lo(t)) { shim::g_bad_choice = true; idx = h.size() - 1; }
      }
    }
    self->view[t] = idx;
    if (shim::is_acq(mo)) shim::g_clk[t] = shim::join(shim::g_clk[t], h[idx].rel);
    if (!nm.empty())
      shim::g_out << "{\"e\":\"acc\",\"t\":" << t << ",\"obj\":\"" << nm << "\",\"op\":\"load\",\"mo\":\"" << shim::mo_name(mo)
                  << "\",\"idx\":" << (idx + 1) << ",\"val\":" << as_ll(h[idx].val) << ",\"n\":" << h.size() << "}\n";
    return h[idx].val;
  }
  void push(T v, bool rel, shim::Clock const& carry)
  {
    int const t = shim::g_thr;
    ++shim::g_clk[t].c[t];
    h.push_back({v, rel ? shim::join(carry, shim::g_clk[t]) : carry, shim::g_clk[t]});
    view[t] = h.size() - 1;
  }
  void store(T v, std::memory_order mo = std::memory_order_seq_cst) noexcept
  {
    SHIM_ENTER(this, 1);
    if (shim::g_thr < 0) { h.back().val = v; return; }
    push(v, shim::is_rel(mo), shim::Clock{});
    std::string const nm = shim::name_of(this);
    if (!nm.empty())
      shim::g_out << "{\"e\":\"acc\",\"t\":" << shim::g_thr << ",\"obj\":\"" << nm << "\",\"op\":\"store\",\"mo\":\"" << shim::mo_name(mo)
                  << "\",\"idx\":" << h.size() << ",\"val\":" << as_ll(v) << "}\n";
  }
  template <typename F>
  T rmw(F f, std::memory_order mo) noexcept
  {
    SHIM_ENTER(this, 2);
    if (shim::g_thr < 0) { T o = h.back().val; h.back().val = f(o); return o; }
    int const t = shim::g_thr;
    Msg const m = h.back();
    if (shim::is_acq(mo)) shim::g_clk[t] = shim::join(shim::g_clk[t], m.rel);
    push(f(m.val), shim::is_rel(mo), m.rel);
    std::string const nm = shim::name_of(this);
    if (!nm.empty())
      shim::g_out << "{\"e\":\"acc\",\"t\":" << t << ",\"obj\":\"" << nm << "\",\"op\":\"rmw\",\"mo\":\"" << shim::mo_name(mo)
                  << "\",\"idx\":" << h.size() << ",\"val\":" << as_ll(h.back().val) << "}\n";
    return m.val;
  }
  operator T() const noexcept { return load(); }
  T operator=(T v) noexcept { store(v); return v; }
  T exchange(T v, std::memory_order mo = std::memory_order_seq_cst) noexcept { return rmw([v](T) { return v; }, mo); }
  T fetch_add(T v, std::memory_order mo = std::memory_order_seq_cst) noexcept { return rmw([v](T o) { return static_cast<T>(o + v); }, mo); }
  T fetch_sub(T v, std::memory_order mo = std::memory_order_seq_cst) noexcept { return rmw([v](T o) { return static_cast<T>(o - v); }, mo); }
};
} // namespace std

